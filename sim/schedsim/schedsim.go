// Package schedsim runs the shared tables (RIB, FIB, strategy table, face table)
// under a cooperative seeded scheduler: each simulated thread (management
// thread, a face's teardown goroutine, a forwarding thread doing lookups) is a
// real goroutine that is parked at every yield hook (before each table lock,
// between the steps of face removal) and released one at a time in the order
// the scenario lists. The invoke/return history is checked for linearizability
// with porcupine against the sequential RIB->FIB flattening model. Property C16.
package schedsim

import (
	"fmt"
	mgmt "github.com/named-data/ndnd/std/ndn/mgmt_2022"
	"runtime"
	"sort"
	"strings"
	"sync"
	"testing"
	"time"

	"github.com/anishathalye/porcupine"

	"github.com/named-data/ndnd/fw/core"
	"github.com/named-data/ndnd/fw/defn"
	"github.com/named-data/ndnd/fw/dispatch"
	"github.com/named-data/ndnd/fw/face"
	"github.com/named-data/ndnd/fw/fw"
	fwmgmt "github.com/named-data/ndnd/fw/mgmt"
	"github.com/named-data/ndnd/fw/table"
	enc "github.com/named-data/ndnd/std/encoding"
	"github.com/named-data/ndnd/std/ndn"
	spec "github.com/named-data/ndnd/std/ndn/spec_2022"
	sec "github.com/named-data/ndnd/std/security"
	"github.com/named-data/ndnd/std/utils"

	"verifsim/kit"
)

type Config struct {
	Fib   string `json:"fib"`
	M     int    `json:"m"`
	Tasks int    `json:"tasks"`
	Sched []int  `json:"sched"`           // which runnable task is released at each scheduling point (modulo), then round-robin
	Pre   int    `json:"pre,omitempty"`   // prefixes /bg/0../bg/Pre-1, each with a route on every face, registered before the tasks start (a RIB of realistic size: one face's clean-up is a FIB batch of dozens of changes)
	Readv bool   `json:"readv,omitempty"` // the real NLSR readvertiser is attached to the RIB (it is called back inside RIB operations)
}

type Op struct {
	Task   int    `json:"task"`
	Op     string `json:"op"` // reg unreg teardown fibadd fibrem setstrat unsetstrat lookup list
	Name   string `json:"name,omitempty"`
	Face   uint64 `json:"face,omitempty"`
	Cost   uint64 `json:"cost,omitempty"`
	Origin uint64 `json:"origin,omitempty"`
	Flags  uint64 `json:"flags,omitempty"`
	Strat  string `json:"strat,omitempty"`
}

type Engine struct{}

func (Engine) Name() string { return "schedsim" }

var ribNames = []string{"/r", "/r/a", "/r/a/b", "/r/c"}
var fibNames = []string{"/f", "/f/a"}
var lookNames = []string{"/r", "/r/a", "/r/a/b", "/r/a/b/x", "/r/c/y", "/f/a/z", "/f", "/q"}

func (Engine) Generate(prop string, r *kit.Rand, tier string) *kit.Scenario[Config, Op] {
	sc := &kit.Scenario[Config, Op]{}
	c := &sc.Config
	c.Fib = kit.Pick(r, []string{"nametree", "hashtable"})
	c.M = r.Range(1, 4)
	c.Tasks = r.Range(2, 5)
	if r.Chance(0.1) {
		c.Tasks = r.Range(6, 8)
	}
	c.Readv = r.Chance(0.4)
	if r.Chance(0.15) {
		c.Pre = r.Range(11, 16)
		if r.Chance(0.2) {
			c.Pre = r.Range(24, 40) // a face's clean-up is then a batch of more than 64 changes
		}
	}
	origins := []uint64{0, 0, 128}
	if c.Readv {
		origins = []uint64{0, 65, 65, 128} // client routes are the ones that are readvertised
	}
	// a few sequential set-up operations run by task 0 first? No: everything is concurrent; task programs are short.
	nops := r.Range(c.Tasks, c.Tasks*4)
	if nops > 16 {
		nops = 16
	}
	weights := []int{30, 12, 10, 6, 3, 4, 2, 28, 5, 8}
	if c.Pre > 0 {
		weights = []int{12, 6, 22, 3, 2, 2, 1, 36, 12, 4} // face teardowns (long FIB batches) among lookups and listings
	}
	if tier == "thorough" && r.Chance(0.08) {
		// the quantifier's upper end: up to 16 goroutines, mostly forwarding-thread lookups around a few writers
		// (keeps the linearizability search tractable)
		c.Tasks = r.Range(9, 16)
		nops = r.Range(c.Tasks, 22)
		weights = []int{10, 4, 4, 3, 1, 2, 1, 70, 5, 3}
	}
	for i := 0; i < nops; i++ {
		o := Op{Task: r.Intn(c.Tasks)}
		switch r.Weighted(weights) {
		case 0:
			o.Op, o.Name, o.Face, o.Cost = "reg", kit.Pick(r, ribNames), uint64(r.Range(1, 3)), uint64(r.Intn(3))
			o.Origin = kit.Pick(r, origins)
			o.Flags = uint64(r.Weighted([]int{1, 6, 1, 1}))
		case 1:
			o.Op, o.Name, o.Face = "unreg", kit.Pick(r, ribNames), uint64(r.Range(1, 3))
			o.Origin = kit.Pick(r, origins)
		case 2:
			o.Op, o.Face = "teardown", uint64(r.Range(1, 3))
		case 3:
			o.Op, o.Name, o.Face, o.Cost = "fibadd", kit.Pick(r, fibNames), uint64(r.Range(1, 3)), uint64(r.Intn(3))
		case 4:
			o.Op, o.Name, o.Face = "fibrem", kit.Pick(r, fibNames), uint64(r.Range(1, 3))
		case 5:
			o.Op, o.Name, o.Strat = "setstrat", kit.Pick(r, []string{"/r", "/f", "/r/a"}), kit.Pick(r, []string{"multicast", "best-route"})
		case 6:
			o.Op, o.Name = "unsetstrat", kit.Pick(r, []string{"/r", "/f", "/r/a"})
		case 7:
			o.Op, o.Name = "lookup", kit.Pick(r, lookNames)
			if c.Pre > 0 && r.Chance(0.5) {
				o.Name = fmt.Sprintf("/bg/%d", r.Intn(c.Pre))
			}
			if r.Chance(0.2) {
				// ... or the whole pipeline of a forwarding thread: an Interest from face Face (Cost, if not 0, is the
				// next hop the consumer chose), then the Data that answers it from face Origin
				o.Op, o.Face, o.Cost, o.Origin = "fwd", uint64(r.Range(1, 3)), uint64(r.Intn(4)), uint64(r.Range(1, 3))
				if r.Chance(0.45) {
					o.Name = kit.Pick(r, []string{"/localhost/sched", "/localhost/sched", "/localhop/sched"}) // the scope rules look at the faces once more
				}
			}
		case 8:
			o.Op = kit.Pick(r, []string{"list", "list", "mlist", "mlist", "mslist", "rlist", "rlist", "faceadd", "faceadd"})
		case 9:
			o.Op, o.Name, o.Face, o.Cost = "mreg", kit.Pick(r, ribNames), uint64(r.Range(1, 3)), uint64(r.Intn(3))
			o.Origin = kit.Pick(r, origins)
			o.Flags = uint64(r.Weighted([]int{1, 6, 1, 1}))
		}
		sc.Ops = append(sc.Ops, o)
	}
	ns := r.Range(10, 120)
	for i := 0; i < ns; i++ {
		c.Sched = append(c.Sched, r.Intn(8))
	}
	// bias: sometimes run one task to completion before the others (near-sequential schedules)
	if r.Chance(0.15) {
		for i := range c.Sched {
			c.Sched[i] = 0
		}
	}
	return sc
}

func (Engine) Simplify(sc *kit.Scenario[Config, Op]) []*kit.Scenario[Config, Op] {
	var out []*kit.Scenario[Config, Op]
	modC := func(f func(c *Config)) {
		n := sc.WithOps(sc.Ops)
		c := sc.Config
		c.Sched = append([]int(nil), c.Sched...)
		f(&c)
		n.Config = c
		out = append(out, n)
	}
	if len(sc.Config.Sched) > 0 {
		modC(func(c *Config) { c.Sched = c.Sched[:len(c.Sched)/2] })
		modC(func(c *Config) { c.Sched = c.Sched[:len(c.Sched)-1] })
		for i, v := range sc.Config.Sched {
			if v != 0 && i < 40 {
				i := i
				modC(func(c *Config) { c.Sched[i] = 0 })
			}
		}
	}
	if sc.Config.Fib != "nametree" {
		modC(func(c *Config) { c.Fib = "nametree" })
	}
	if sc.Config.Readv {
		modC(func(c *Config) { c.Readv = false })
	}
	if sc.Config.Pre > 0 {
		modC(func(c *Config) { c.Pre = 0 })
		modC(func(c *Config) { c.Pre-- })
	}
	// renumber tasks compactly
	used := map[int]bool{}
	for _, o := range sc.Ops {
		used[o.Task] = true
	}
	if len(used) < sc.Config.Tasks {
		ids := []int{}
		for t := range used {
			ids = append(ids, t)
		}
		sort.Ints(ids)
		ren := map[int]int{}
		for i, t := range ids {
			ren[t] = i
		}
		ops := append([]Op(nil), sc.Ops...)
		for i := range ops {
			ops[i].Task = ren[ops[i].Task]
		}
		n := sc.WithOps(ops)
		c := sc.Config
		c.Tasks = max(len(ids), 1)
		n.Config = c
		out = append(out, n)
	}
	for i, o := range sc.Ops {
		mod := func(f func(o *Op)) {
			ops := append([]Op(nil), sc.Ops...)
			f(&ops[i])
			out = append(out, sc.WithOps(ops))
		}
		if o.Cost != 0 {
			mod(func(o *Op) { o.Cost = 0 })
		}
		if o.Origin != 0 {
			mod(func(o *Op) { o.Origin = 0 })
		}
		if o.Op == "reg" && o.Flags != 1 {
			mod(func(o *Op) { o.Flags = 1 })
		}
	}
	return out
}

// ---------------------------------------------------------------- sequential model (porcupine)

type route struct{ face, origin, cost, flags uint64 }

type mstate struct {
	routes map[string][]route
	fib    map[string]map[uint64]uint64
	strat  map[string]string
	gone   map[uint64]bool // faces that were torn down
}

func (s *mstate) clone() *mstate {
	n := &mstate{routes: map[string][]route{}, fib: map[string]map[uint64]uint64{}, strat: map[string]string{}, gone: map[uint64]bool{}}
	for k := range s.gone {
		n.gone[k] = true
	}
	for k, v := range s.routes {
		n.routes[k] = append([]route(nil), v...)
	}
	for k, v := range s.fib {
		n.fib[k] = map[uint64]uint64{}
		for f, c := range v {
			n.fib[k][f] = c
		}
	}
	for k, v := range s.strat {
		n.strat[k] = v
	}
	return n
}

func prefixesOf(n string) []string {
	out := []string{}
	for n != "/" && n != "" {
		out = append(out, n)
		i := strings.LastIndex(n, "/")
		if i <= 0 {
			break
		}
		n = n[:i]
	}
	return append(out, "/")
}

func nhStr(nh map[uint64]uint64) string {
	xs := make([]string, 0, len(nh))
	for f, c := range nh {
		xs = append(xs, fmt.Sprintf("%d:%d", f, c))
	}
	sort.Strings(xs)
	return strings.Join(xs, ",")
}

func (s *mstate) expectedFib() map[string]map[uint64]uint64 {
	out := map[string]map[uint64]uint64{}
	for p, rs := range s.routes {
		if len(rs) == 0 {
			continue
		}
		all := append([]route(nil), rs...)
		capture := false
		for _, r := range rs {
			if r.flags&2 != 0 {
				capture = true
			}
		}
		if !capture {
			for _, q := range prefixesOf(p)[1:] {
				stop := false
				for _, r := range s.routes[q] {
					if r.flags&1 != 0 {
						all = append(all, r)
					}
					if r.flags&2 != 0 {
						stop = true
					}
				}
				if stop {
					break
				}
			}
		}
		nh := map[uint64]uint64{}
		for _, r := range all {
			if c, ok := nh[r.face]; !ok || r.cost < c {
				nh[r.face] = r.cost
			}
		}
		out[p] = nh
	}
	for p, nh := range s.fib {
		if len(nh) > 0 {
			if out[p] == nil {
				out[p] = map[uint64]uint64{}
			}
			for f, c := range nh {
				out[p][f] = c
			}
		}
	}
	return out
}

func (s *mstate) key() string {
	var sb strings.Builder
	gs := []int{}
	for f := range s.gone {
		gs = append(gs, int(f))
	}
	sort.Ints(gs)
	sb.WriteString(fmt.Sprintf("G%v;", gs))
	ps := []string{}
	for p := range s.routes {
		ps = append(ps, p)
	}
	sort.Strings(ps)
	for _, p := range ps {
		rs := append([]route(nil), s.routes[p]...)
		if len(rs) == 0 {
			continue
		}
		sort.Slice(rs, func(i, j int) bool {
			if rs[i].face != rs[j].face {
				return rs[i].face < rs[j].face
			}
			return rs[i].origin < rs[j].origin
		})
		sb.WriteString(fmt.Sprintf("R%s%v;", p, rs))
	}
	ps = ps[:0]
	for p := range s.fib {
		ps = append(ps, p)
	}
	sort.Strings(ps)
	for _, p := range ps {
		if len(s.fib[p]) > 0 {
			sb.WriteString("F" + p + "=" + nhStr(s.fib[p]) + ";")
		}
	}
	ps = ps[:0]
	for p := range s.strat {
		ps = append(ps, p)
	}
	sort.Strings(ps)
	for _, p := range ps {
		sb.WriteString("S" + p + "=" + s.strat[p] + ";")
	}
	return sb.String()
}

func (s *mstate) lookup(n string) string {
	exp := s.expectedFib()
	nh := ""
	for _, p := range prefixesOf(n) {
		if e, ok := exp[p]; ok && len(e) > 0 {
			nh = nhStr(e)
			break
		}
	}
	return nh
}

func (s *mstate) strategy(n string) string {
	st := "best-route"
	for _, p := range prefixesOf(n) {
		if v, ok := s.strat[p]; ok {
			st = v
			break
		}
	}
	return st
}

// ribList: the RIB as rib/list shows it.
func (s *mstate) ribList() string {
	ps := []string{}
	for p, rs := range s.routes {
		if len(rs) == 0 {
			continue
		}
		xs := []string{}
		for _, r := range rs {
			xs = append(xs, fmt.Sprintf("%d/%d/%d/%d", r.face, r.origin, r.cost, r.flags))
		}
		sort.Strings(xs)
		ps = append(ps, p+"="+strings.Join(xs, ","))
	}
	sort.Strings(ps)
	return strings.Join(ps, " ")
}

// stratList: the strategy table as strategy-choice/list shows it (the root's default included).
func (s *mstate) stratList() string {
	ps := []string{}
	root := false
	for p, v := range s.strat {
		ps = append(ps, p+"="+v)
		if p == "/" {
			root = true
		}
	}
	if !root {
		ps = append(ps, "/=best-route")
	}
	sort.Strings(ps)
	return strings.Join(ps, " ")
}

func (s *mstate) list() string {
	exp := s.expectedFib()
	ps := []string{}
	for p, nh := range exp {
		if len(nh) > 0 {
			ps = append(ps, p+"="+nhStr(nh))
		}
	}
	sort.Strings(ps)
	return strings.Join(ps, " ")
}

func (s *mstate) apply(o *Op) {
	switch o.Op {
	case "reg", "mreg":
		rs := s.routes[o.Name]
		for i := range rs {
			if rs[i].face == o.Face && rs[i].origin == o.Origin {
				rs[i].cost, rs[i].flags = o.Cost, o.Flags
				return
			}
		}
		s.routes[o.Name] = append(rs, route{o.Face, o.Origin, o.Cost, o.Flags})
	case "unreg":
		rs := s.routes[o.Name]
		for i := range rs {
			if rs[i].face == o.Face && rs[i].origin == o.Origin {
				s.routes[o.Name] = append(append([]route(nil), rs[:i]...), rs[i+1:]...)
				return
			}
		}
	case "facegone":
		s.gone[o.Face] = true
	case "teardown", "cleanup":
		if o.Op == "teardown" {
			s.gone[o.Face] = true
		}
		for p, rs := range s.routes {
			var keep []route
			for _, r := range rs {
				if r.face != o.Face {
					keep = append(keep, r)
				}
			}
			s.routes[p] = keep
		}
	case "fibadd":
		if s.fib[o.Name] == nil {
			s.fib[o.Name] = map[uint64]uint64{}
		}
		s.fib[o.Name][o.Face] = o.Cost
	case "fibrem":
		delete(s.fib[o.Name], o.Face)
	case "setstrat":
		s.strat[o.Name] = o.Strat
	case "unsetstrat":
		delete(s.strat, o.Name)
	}
}

// porcupine model over canonical state strings; the live state objects are
// kept in a side table keyed by the canonical string.
type pstate struct {
	key string
	st  *mstate
}

var model = porcupine.Model{
	Init: func() interface{} {
		st := &mstate{routes: map[string][]route{}, fib: map[string]map[uint64]uint64{}, strat: map[string]string{}, gone: map[uint64]bool{}}
		return pstate{st.key(), st}
	},
	Step: func(state, input, output interface{}) (bool, interface{}) {
		ps := state.(pstate)
		o := input.(*Op)
		switch o.Op {
		case "lookup":
			return ps.st.lookup(o.Name) == output.(string), state
		case "strat":
			return ps.st.strategy(o.Name) == output.(string), state
		case "list", "mlist":
			return ps.st.list() == output.(string), state
		case "mslist":
			return ps.st.stratList() == output.(string), state
		case "rlist":
			return ps.st.ribList() == output.(string), state
		case "faceadd":
			return true, state
		case "mreg":
			// a management registration naming a face: accepted iff the face exists at that moment
			if output.(string) != "ok" {
				return ps.st.gone[o.Face], state
			}
			if ps.st.gone[o.Face] {
				return false, state
			}
		}
		n := ps.st.clone()
		n.apply(o)
		return true, pstate{n.key(), n}
	},
	Equal: func(a, b interface{}) bool { return a.(pstate).key == b.(pstate).key },
	DescribeOperation: func(input, output interface{}) string {
		o := input.(*Op)
		return fmt.Sprintf("t%d %s %s f%d -> %v", o.Task, o.Op, o.Name, o.Face, output)
	},
}

// ---------------------------------------------------------------- scheduler

type yieldMsg struct {
	task   int
	tag    string
	done   bool
	panicV any
	site   string
}

type sched struct {
	cur     int
	toSched chan yieldMsg
	resume  []chan struct{}
	counter int
	// goroutine identity: the harness's tasks register themselves; a goroutine that the code under test spawns
	// (none in the repository today) becomes a task of its own at its first yield point
	mu   sync.Mutex
	gmap map[uint64]int
}

// goid returns the id of the calling goroutine (parsed from its stack header).
func goid() uint64 {
	var buf [40]byte
	n := runtime.Stack(buf[:], false)
	// "goroutine 123 [running]:"
	var id uint64
	for _, c := range buf[len("goroutine "):n] {
		if c < '0' || c > '9' {
			break
		}
		id = id*10 + uint64(c-'0')
	}
	return id
}

func (s *sched) resumeCh(i int) chan struct{} {
	s.mu.Lock()
	defer s.mu.Unlock()
	return s.resume[i]
}

func mkName(s string) enc.Name {
	if s == "/" || s == "" {
		return enc.Name{}
	}
	n, err := enc.NameFromStr(s)
	if err != nil {
		panic("harness: bad name " + s)
	}
	return n
}

func nstr(n enc.Name) string {
	if len(n) == 0 {
		return "/"
	}
	return n.String()
}

var configured bool

func stratFull(s string) string { return "/localhost/nfd/strategy/" + s + "/v=1" }

// Run executes the scenario several times. The release order, the task programs
// and every table call are fixed by the scenario, but inside one RIB update the
// repository iterates Go maps (children, per-face minimum costs), whose order
// the runtime randomises and no seam can own: which next hop is re-inserted
// first after the clear differs between executions. A scenario therefore
// stands for the small set of executions that differ only in those iteration
// orders, and it violates the property if any of them does. Search uses a few
// repetitions, shrinking and replay many (the chance that a k-way rotation is
// never hit in 48 tries is below 1e-6 for k<=3).
func (e Engine) Run(t *testing.T, ctx *kit.Ctx, sc *kit.Scenario[Config, Op]) *kit.Result {
	reps := 6
	if ctx == nil {
		reps = 48
	}
	var res *kit.Result
	for i := 0; i < reps; i++ {
		res = e.runOnce(t, ctx, sc)
		if res.Violation != nil {
			break
		}
	}
	// the digest names the scenario, not one of its map-order variants
	d := kit.NewDigest().S(sc.Config.Fib).I(sc.Config.M).I(sc.Config.Tasks)
	for _, v := range sc.Config.Sched {
		d.I(v)
	}
	for _, o := range sc.Ops {
		d.I(o.Task).S(o.Op).S(o.Name).U(o.Face).U(o.Cost).U(o.Origin).U(o.Flags).S(o.Strat)
	}
	res.Digest = d.Sum()
	ctx.State(res.Digest)
	return res
}

// Whether the code under test spawns goroutines is a property of the build: once one has been seen (or while the
// process is young) the end of a run waits a moment for late ones.
var fwThread *fw.Thread
var fwdSigner ndn.Signer
var fwdSeq int

var sawSpawn bool
var processRuns int

func (e Engine) runOnce(t *testing.T, ctx *kit.Ctx, sc *kit.Scenario[Config, Op]) *kit.Result {
	res := &kit.Result{}
	processRuns++
	if !configured {
		cfg := core.DefaultConfig()
		cfg.Core.LogLevel = "FATAL"
		core.LoadConfig(cfg, "")
		core.InitializeLogger("")
		table.Configure()
		face.Configure()
		fw.Configure()
		configured = true
	}
	if fwThread == nil {
		// one forwarding thread per process (its loop does not run: its pipelines are called by "fwd" operations)
		fwThread = fw.NewThread(0)
		fwThread.VerifDNL().Ticker.Stop()
		fw.Threads = []*fw.Thread{fwThread}
		dispatch.InitializeFWThreads([]dispatch.FWThread{fwThread})
		fwdSigner = sec.NewSha256Signer()
	}

	c := sc.Config
	core.GetConfig().Tables.Fib.Hashtable.M = uint16(max(1, c.M))
	table.VerifResetGlobals()
	table.CreateFIBTable(c.Fib)
	face.VerifResetFaceTable()
	fibListFn, stratListFn := fwmgmt.VerifDatasetHandlers()
	var addedFaces []face.LinkService // faces registered by faceadd operations (tasks run one at a time)
	drainReadv := func() [][]byte { return nil }
	if c.Readv {
		rv, drain := fwmgmt.VerifNlsrReadvertiser()
		table.AddReadvertiser(rv)
		drainReadv = drain
	}
	for id := uint64(1); id <= 3; id++ { // the scenario's faces exist (management checks that before it registers a route)
		face.FaceTable.Add(face.MakeNullLinkService(face.MakeNullTransport()))
	}
	for id := uint64(4); id < 1200; id++ { // every face id a scenario can have used (only the exported API, so that the table's representation can change)
		dispatch.RemoveFace(id)
	}
	fib := table.FibStrategyTable
	var preOps []*Op
	for i := 0; i < c.Pre; i++ {
		for f := uint64(1); f <= 3; f++ {
			o := &Op{Task: -1, Op: "reg", Name: fmt.Sprintf("/bg/%d", i), Face: f, Cost: uint64(i) % 3, Flags: 1}
			table.Rib.AddEncRoute(mkName(o.Name), &table.Route{FaceID: o.Face, Origin: o.Origin, Cost: o.Cost, Flags: o.Flags})
			preOps = append(preOps, o)
		}
	}

	ntask := max(c.Tasks, 1)
	progs := make([][]*Op, ntask)
	for i := range sc.Ops {
		o := &sc.Ops[i]
		progs[o.Task%ntask] = append(progs[o.Task%ntask], o)
	}
	s := &sched{toSched: make(chan yieldMsg), resume: make([]chan struct{}, ntask), gmap: map[uint64]int{}}
	for i := range s.resume {
		s.resume[i] = make(chan struct{})
	}
	// what each task is doing (for the overlap rule)
	ribLocks := make([]int, ntask)    // RIB lock acquisitions of the task's current operation
	tearMid := make([]int, ntask)     // event number at which a task's teardown passed from the face table to the RIB
	inRib := make([]bool, ntask)      // inside a RIB mutator
	ribYielded := make([]bool, ntask) // ... and has passed at least one inner yield point

	table.VerifYield = func(tag string) {
		g := goid()
		s.mu.Lock()
		me, ok := s.gmap[g]
		if !ok {
			me = len(s.resume)
			s.resume = append(s.resume, make(chan struct{}))
			s.gmap[g] = me
		}
		ch := s.resume[me]
		s.mu.Unlock()
		s.toSched <- yieldMsg{task: me, tag: tag}
		<-ch
	}
	setAutoYield(table.VerifYield)
	defer func() { table.VerifYield = nil; setAutoYield(nil) }()

	var ops []porcupine.Operation
	for _, o := range preOps { // sequential history before any task starts
		ops = append(ops, porcupine.Operation{ClientId: ntask + 1, Input: o, Call: int64(s.counter), Output: nil, Return: int64(s.counter + 1)})
		s.counter += 2
	}
	mutated := ""
	type pend struct {
		op   *Op
		call int
	}
	step := 0
	for ti := 0; ti < ntask; ti++ {
		ti := ti
		go func() {
			s.mu.Lock()
			s.gmap[goid()] = ti
			s.mu.Unlock()
			<-s.resumeCh(ti)
			defer func() {
				if p := recover(); p != nil {
					s.toSched <- yieldMsg{task: ti, done: true, panicV: p, site: kit.PanicSite()}
					return
				}
				s.toSched <- yieldMsg{task: ti, done: true}
			}()
			for _, o := range progs[ti] {
				call := s.counter
				s.counter++
				var out interface{}
				switch o.Op {
				case "reg":
					inRib[ti] = true
					table.Rib.AddEncRoute(mkName(o.Name), &table.Route{FaceID: o.Face, Origin: o.Origin, Cost: o.Cost, Flags: o.Flags})
					inRib[ti], ribYielded[ti] = false, false
				case "mreg":
					// what the management module does for rib/register with a FaceId
					inRib[ti] = true
					ribLocks[ti], tearMid[ti] = 0, -1
					accepted := mgmtRegister(mkName(o.Name), &table.Route{FaceID: o.Face, Origin: o.Origin, Cost: o.Cost, Flags: o.Flags})
					inRib[ti], ribYielded[ti] = false, false
					if accepted {
						out = "ok"
					} else if mid := tearMid[ti]; ribLocks[ti] >= 2 && mid >= 0 {
						// refused after the fact: the route was registered, the face then found gone and its routes
						// withdrawn again - two steps, each atomic, recorded as a registration and a clean-up
						ret := s.counter
						s.counter++
						ops = append(ops, porcupine.Operation{ClientId: ti, Input: &Op{Task: o.Task, Op: "reg", Name: o.Name, Face: o.Face, Origin: o.Origin, Cost: o.Cost, Flags: o.Flags}, Call: int64(call), Output: nil, Return: int64(mid)},
							porcupine.Operation{ClientId: ti, Input: &Op{Task: o.Task, Op: "cleanup", Face: o.Face}, Call: int64(mid + 1), Output: nil, Return: int64(ret)})
						ctx.Probe("registration-withdrawn-after-face-teardown")
						continue
					} else {
						out = "gone"
					}
				case "unreg":
					inRib[ti] = true
					table.Rib.RemoveRouteEnc(mkName(o.Name), o.Face, o.Origin)
					inRib[ti], ribYielded[ti] = false, false
				case "teardown":
					// A teardown is two steps, each atomic: the face leaves the face table, then its routes are
					// withdrawn. The history records them as two operations, split where the task passes the yield
					// point between them.
					ctx.Fault("face-teardown")
					inRib[ti] = true
					tearMid[ti], ribLocks[ti] = -1, -100 // (no compound registration in this operation)
					face.FaceTable.Remove(o.Face)
					inRib[ti], ribYielded[ti] = false, false
					if mid := tearMid[ti]; mid >= 0 {
						ret := s.counter
						s.counter++
						ops = append(ops, porcupine.Operation{ClientId: ti, Input: &Op{Task: o.Task, Op: "facegone", Face: o.Face}, Call: int64(call), Output: nil, Return: int64(mid)},
							porcupine.Operation{ClientId: ti, Input: &Op{Task: o.Task, Op: "cleanup", Face: o.Face}, Call: int64(mid + 1), Output: nil, Return: int64(ret)})
						continue
					}
				case "fibadd":
					fib.InsertNextHopEnc(mkName(o.Name), o.Face, o.Cost)
				case "fibrem":
					fib.RemoveNextHopEnc(mkName(o.Name), o.Face)
				case "setstrat":
					fib.SetStrategyEnc(mkName(o.Name), mkName(stratFull(o.Strat)))
				case "unsetstrat":
					fib.UnSetStrategyEnc(mkName(o.Name))
				case "lookup":
					// a forwarding thread makes two separately locked lookups: next hops, then strategy
					// (two operations of the history, each with its own invocation and response)
					nhs := fib.FindNextHopsEnc(mkName(o.Name))
					ret := s.counter
					s.counter++
					call2 := s.counter
					s.counter++
					st := fib.FindStrategyEnc(mkName(o.Name))
					ret2 := s.counter
					s.counter++
					atReturn := renderLookup(nhs)
					// the forwarding thread uses the returned slice after the lookup returned
					table.VerifYield("lookup.use-result")
					if after := renderLookup(nhs); after != atReturn {
						mutated = fmt.Sprintf("lookup %s returned [%s]; after other threads ran, the same returned slice reads [%s]", o.Name, atReturn, after)
					}
					ops = append(ops, porcupine.Operation{ClientId: ti, Input: o, Call: int64(call), Output: atReturn, Return: int64(ret)})
					sn := "best-route"
					if st != nil && len(st) >= 4 {
						sn = st[3].String()
					}
					ops = append(ops, porcupine.Operation{ClientId: ti, Input: &Op{Task: o.Task, Op: "strat", Name: o.Name}, Call: int64(call2), Output: sn, Return: int64(ret2)})
					continue
				case "fwd":
					// the real incoming-Interest and incoming-Data pipelines of a forwarding thread, run on this task:
					// table lookups and face look-ups as the thread makes them, while faces come and go. Nothing is
					// recorded for the history; a crash or a deadlock is what this operation can show
					fwdSeq++
					iname := append(mkName(o.Name), enc.NewStringComponent(enc.TypeGenericNameComponent, fmt.Sprintf("t%d-%d", ti, fwdSeq)))
					// (a long lifetime - no real-time expiry inside a run: the schedule must not depend on how long the machine took)
					icfg := &ndn.InterestConfig{Nonce: utils.IdPtr(uint64(5000 + fwdSeq)), Lifetime: utils.IdPtr(10 * time.Second)}
					ei, err := spec.Spec{}.MakeInterest(iname, icfg, nil, nil)
					if err != nil {
						panic("harness: MakeInterest: " + err.Error())
					}
					iraw := ei.Wire.Join()
					ip, _, _ := spec.ReadPacket(enc.NewBufferReader(iraw))
					ipkt := &defn.Pkt{Name: ip.Interest.NameV, L3: ip, Raw: iraw, IncomingFaceID: utils.IdPtr(o.Face)}
					if o.Cost != 0 {
						ipkt.NextHopFaceID = utils.IdPtr(o.Cost)
					}
					fwThread.VerifInterest(ipkt)
					ed, err := spec.Spec{}.MakeData(iname, &ndn.DataConfig{ContentType: utils.IdPtr(ndn.ContentTypeBlob)}, enc.Wire{[]byte("x")}, fwdSigner)
					if err != nil {
						panic("harness: MakeData: " + err.Error())
					}
					draw := ed.Wire.Join()
					dp, _, _ := spec.ReadPacket(enc.NewBufferReader(draw))
					fwThread.VerifData(&defn.Pkt{Name: dp.Data.NameV, L3: dp, Raw: draw, IncomingFaceID: utils.IdPtr(o.Origin)})
					ctx.Probe("forwarding-pipeline-run")
					continue
				case "faceadd":
					// a new face registers itself (a listener accepted a connection) while everything else goes on
					nf := face.MakeNullLinkService(face.MakeNullTransport())
					face.FaceTable.Add(nf)
					addedFaces = append(addedFaces, nf)
					out = "ok"
				case "rlist":
					// rib/list reads the entries' routes after the listing call has returned
					render := func(es []*table.RibEntry) string {
						ps := []string{}
						for _, e := range es {
							xs := []string{}
							for _, rt := range e.GetRoutes() {
								xs = append(xs, fmt.Sprintf("%d/%d/%d/%d", rt.FaceID, rt.Origin, rt.Cost, rt.Flags))
							}
							sort.Strings(xs)
							if len(xs) > 0 {
								ps = append(ps, nstr(e.Name)+"="+strings.Join(xs, ","))
							}
						}
						sort.Strings(ps)
						return strings.Join(ps, " ")
					}
					entries := table.Rib.GetAllEntries()
					atReturn := render(entries)
					ret := s.counter
					s.counter++
					table.VerifYield("list.use-result")
					if after := render(entries); after != atReturn && mutated == "" {
						mutated = fmt.Sprintf("RIB listing returned [%s]; after other threads ran, the same returned entries read [%s]", atReturn, after)
					}
					ops = append(ops, porcupine.Operation{ClientId: ti, Input: o, Call: int64(call), Output: atReturn, Return: int64(ret)})
					continue
				case "mlist":
					// fib/list as the management thread serves it: the real handler, dataset decoded
					out = "undecodable"
					if ds, err := mgmt.ParseFibStatus(enc.NewBufferReader(fibListFn()), true); err == nil {
						xs := []string{}
						for _, e := range ds.Entries {
							nh := map[uint64]uint64{}
							for _, h := range e.NextHopRecords {
								nh[h.FaceId] = h.Cost
							}
							if len(nh) > 0 {
								xs = append(xs, nstr(e.Name)+"="+nhStr(nh))
							}
						}
						sort.Strings(xs)
						out = strings.Join(xs, " ")
					}
				case "mslist":
					out = "undecodable"
					if ds, err := mgmt.ParseStrategyChoiceMsg(enc.NewBufferReader(stratListFn()), true); err == nil {
						xs := []string{}
						for _, e := range ds.StrategyChoices {
							sn := "?"
							if e.Strategy != nil && len(e.Strategy.Name) >= 4 {
								sn = e.Strategy.Name[3].String()
							}
							xs = append(xs, nstr(e.Name)+"="+sn)
						}
						sort.Strings(xs)
						out = strings.Join(xs, " ")
					}
				case "list":
					render := func(es []table.FibStrategyEntry) string {
						xs := []string{}
						for _, e := range es {
							nh := map[uint64]uint64{}
							for _, h := range e.GetNextHops() {
								nh[h.Nexthop] = h.Cost
							}
							if len(nh) > 0 {
								xs = append(xs, nstr(e.Name())+"="+nhStr(nh))
							}
						}
						sort.Strings(xs)
						return strings.Join(xs, " ")
					}
					entries := fib.GetAllFIBEntries()
					atReturn := render(entries)
					ret := s.counter
					s.counter++
					// the management thread reads the entries' next hops after the listing call returned (fib/list,
					// status): what was returned must not change under it
					table.VerifYield("list.use-result")
					if after := render(entries); after != atReturn && mutated == "" {
						mutated = fmt.Sprintf("listing returned [%s]; after other threads ran, the same returned entries read [%s]", atReturn, after)
					}
					ops = append(ops, porcupine.Operation{ClientId: ti, Input: o, Call: int64(call), Output: atReturn, Return: int64(ret)})
					continue
				}
				ret := s.counter
				s.counter++
				ops = append(ops, porcupine.Operation{ClientId: ti, Input: o, Call: int64(call), Output: out, Return: int64(ret)})
			}
		}()
	}

	// scheduling loop: exactly one task runs at a time
	alive := make([]bool, ntask)
	blocked := make([]bool, ntask)
	parked := make([]string, ntask) // where each task is parked (its last yield tag)
	selfHeld := make([]bool, ntask) // the task was seen taking a FIB lock it already holds
	inBatch := make([]bool, ntask)  // between fib.batch and fib.batch-end: holds the FIB write lock
	// readFP: the FIB's stored representation when the task was parked inside a read-locked section (tag fib.read).
	// Until that task reports again nothing may change it: writers cannot get the lock, and readers must not write.
	readFP := map[int]uint64{}
	for i := range alive {
		alive[i] = true
	}
	nalive := ntask
	// a goroutine spawned by the code under test: grow the per-task state
	admit := func(ti int, tag string) {
		for len(alive) <= ti {
			alive = append(alive, false)
			blocked = append(blocked, false)
			parked = append(parked, "")
			selfHeld = append(selfHeld, false)
			inBatch = append(inBatch, false)
			inRib = append(inRib, false)
			ribYielded = append(ribYielded, false)
		}
		if !alive[ti] {
			alive[ti] = true
			nalive++
		}
		parked[ti] = strings.TrimSuffix(tag, "+held")
		blocked[ti] = strings.HasPrefix(tag, "blocked:")
		ctx.Probe("goroutine-spawned-by-the-code-under-test")
		sawSpawn = true
	}
	baseGoroutines := runtime.NumGoroutine()
	si := 0
	rr := 0
	overlapped := false
	stuck := 0
	for {
		if nalive <= 0 && res.Violation == nil && (sawSpawn || processRuns < 30) && runtime.NumGoroutine() > baseGoroutines-ntask {
			// a goroutine spawned just before the last task finished may not have reached its first yield point yet
			select {
			case m := <-s.toSched:
				if !m.done {
					admit(m.task, m.tag)
				}
			case <-time.After(20 * time.Millisecond):
			}
		}
		if nalive <= 0 {
			break
		}
		// candidates: alive tasks; prefer ones not known to be blocked
		var cand []int
		for i := 0; i < len(alive); i++ {
			if alive[i] && !blocked[i] {
				cand = append(cand, i)
			}
		}
		if len(cand) == 0 {
			for i := 0; i < len(alive); i++ {
				if alive[i] {
					cand = append(cand, i)
				}
			}
			stuck++
			if stuck > 4*len(alive) {
				res.Violation = &kit.Violation{Class: "C16/deadlock", Key: c.Fib, Step: step, Detail: "every unfinished task is blocked on a table lock"}
				break
			}
			for i := range blocked {
				blocked[i] = false
			}
		}
		var pick int
		if si < len(c.Sched) {
			pick = cand[c.Sched[si]%len(cand)]
			si++
		} else {
			pick = cand[rr%len(cand)]
			rr++
		}
		if pick != s.cur {
			ctx.Fault("preemption-at-yield-point")
		}
		s.cur = pick
		s.counter++
		s.resumeCh(pick) <- struct{}{}
		var msg yieldMsg
		gone := false
		for {
			wait := 20 * time.Second
			if pick >= ntask {
				wait = 150 * time.Millisecond // a spawned goroutine does not say when it ends
			}
			timedOut := false
			select {
			case msg = <-s.toSched:
			case <-time.After(wait):
				timedOut = true
			}
			if timedOut {
				if pick >= ntask {
					// presumed finished (if it is merely slow it is admitted again at its next yield point)
					alive[pick] = false
					nalive--
					gone = true
					break
				}
				res.Violation = &kit.Violation{Class: "C16/task-stuck", Key: c.Fib, Step: step, Detail: fmt.Sprintf("task %d neither yielded nor finished within 20 s wall (blocked inside a real lock, or spinning)", pick)}
				nalive = 0
				gone = true
				break
			}
			if msg.task != pick {
				// another goroutine reached a yield point while the picked task runs: one that the code under test
				// spawned (it is parked there and becomes schedulable)
				admit(msg.task, msg.tag)
				continue
			}
			break
		}
		if gone {
			stuck = 0
			for i := range blocked {
				blocked[i] = false
			}
			continue
		}
		step++
		res.Steps++
		if n := len(drainReadv()); n > 0 { // the command Interests of the readvertiser go nowhere
			ctx.Probe("readvertise-command-sent")
		}
		if fp, ok := readFP[pick]; ok {
			delete(readFP, pick)
			if now := table.VerifFibFingerprint(); now != fp && res.Violation == nil {
				ctx.Probe("fib-changed-under-read-lock")
				res.Violation = &kit.Violation{Class: "C16/lock-discipline", Key: c.Fib + "/fib-modified-under-read-lock", Step: step,
					Detail: fmt.Sprintf("the FIB's stored representation changed between task %d entering a read-locked section and leaving it: something wrote to the table while only a shared lock was held (lookups running in parallel would race on it)", pick)}
				if msg.done {
					alive[pick] = false
					nalive--
				}
				break
			}
		}
		if !msg.done && msg.tag == "fib.read" {
			readFP[pick] = table.VerifFibFingerprint()
			ctx.Probe("fib-read-section-fingerprinted")
		}
		if msg.done {
			inBatch[pick] = false
			alive[pick] = false
			nalive--
			if msg.panicV != nil {
				if strings.HasPrefix(msg.site, "harness:") {
					panic(msg.panicV)
				}
				res.Violation = &kit.Violation{Class: "C16/panic", Key: msg.site, Step: step, Detail: fmt.Sprint(msg.panicV)}
				break
			}
			stuck = 0
			for i := range blocked {
				blocked[i] = false
			}
			continue
		}
		if msg.tag == "rib.lock" && pick < ntask {
			ribLocks[pick]++
			if ribLocks[pick] == 2 { // the second RIB operation of a compound management registration starts here
				s.counter++
				tearMid[pick] = s.counter
				s.counter++
			}
		}
		if msg.tag == "facetable.remove.rib" && pick < ntask {
			s.counter++
			tearMid[pick] = s.counter
			s.counter++
		}
		if parked[pick] == "fib.batch-end" {
			inBatch[pick] = false // it was parked at the end of the batch, still holding the lock; now it has moved on
		}
		parked[pick] = msg.tag
		if strings.HasPrefix(msg.tag, "auto:") {
			ctx.Probe("automatic-scheduling-point")
		}
		if msg.tag == "fib.batch" {
			inBatch[pick] = true
		}
		if base, ok := strings.CutSuffix(msg.tag, "+held"); ok {
			// The task is about to take a FIB lock that someone holds right now. Every other task is parked at a
			// known place; if none of them is inside a FIB critical section the holder is this task itself.
			msg.tag = base
			parked[pick] = base
			if base == "fib.rlock" || base == "fib.lock" {
				other, writer := false, -1
				for i := 0; i < len(alive); i++ {
					if i == pick || !alive[i] {
						continue
					}
					if inBatch[i] {
						other = true // parked somewhere inside a FIB batch: it holds the FIB write lock
					}
					switch parked[i] {
					case "fib.read", "fib.mut", "fib.batch":
						other = true
					case "fib.lock", "blocked:fib.lock":
						writer = i
					}
				}
				for i := 0; i < len(alive); i++ {
					if i != pick && alive[i] && selfHeld[i] {
						other = true // a task already found re-entrant is parked at a lock hook while holding the lock
					}
				}
				if !other {
					ctx.Probe("reentrant-fib-lock")
					selfHeld[pick] = true
					if base == "fib.lock" {
						res.Violation = &kit.Violation{Class: "C16/deadlock", Key: c.Fib + "/reentrant-write-lock", Step: step,
							Detail: fmt.Sprintf("task %d takes the FIB write lock while it already holds the FIB lock itself", pick)}
						break
					}
					if writer >= 0 {
						res.Violation = &kit.Violation{Class: "C16/deadlock", Key: c.Fib + "/reentrant-read-lock-with-writer-waiting", Step: step,
							Detail: fmt.Sprintf("task %d re-enters the FIB read lock it already holds while task %d is at Lock(): the writer waits for the outer read lock, the inner RLock queues behind the writer, neither proceeds", pick, writer)}
						break
					}
				}
			}
		}
		if strings.HasPrefix(msg.tag, "unlocked-mutation:") || strings.HasPrefix(msg.tag, "unlocked-read:") {
			res.Violation = &kit.Violation{Class: "C16/lock-discipline", Key: c.Fib + "/" + msg.tag, Step: step,
				Detail: fmt.Sprintf("task %d is inside a table operation at %q without the lock that operation needs (a shared-mode lock where exclusive access is required, or none): concurrent tasks can enter the same section", pick, msg.tag)}
			break
		}
		if strings.HasPrefix(msg.tag, "blocked:") {
			blocked[pick] = true
			ctx.Probe("blocked-on-lock")
			continue
		}
		stuck = 0
		for i := range blocked {
			blocked[i] = false
		}
		// (An earlier version reported two tasks "inside RIB mutators at once" as a data race by definition. That is
		// only true while every mutator holds the RIB lock from entry to exit, which the property does not demand:
		// the lock-discipline probes inside the RIB - rib.mut, rib.flatten, rib.cleanup, rib.prune: the RIB mutex
		// must be held whenever RIB state is read for flattening or written - say the same thing soundly, and
		// atomicity is the business of the linearizability check.)
		if inRib[pick] && (strings.HasPrefix(msg.tag, "fib.") || strings.HasPrefix(msg.tag, "rib.") && msg.tag != "rib.lock") {
			ribYielded[pick] = true
		}
		n := 0
		for i := 0; i < len(alive); i++ {
			if alive[i] && inRib[i] && ribYielded[i] {
				n++
			}
		}
		if n >= 1 {
			overlapped = true
		}
	}
	if res.Violation != nil {
		// let parked tasks run to completion sequentially so that no goroutine leaks into the next run
		table.VerifYield = nil
		setAutoYield(nil)
		for i := 0; i < len(alive); i++ {
			if alive[i] {
				s.cur = i
				select {
				case s.resumeCh(i) <- struct{}{}:
				default:
				}
			}
		}
		deadline := time.After(5 * time.Second)
		for nalive > 0 {
			select {
			case m := <-s.toSched:
				if m.done {
					nalive--
				} else {
					s.resumeCh(m.task) <- struct{}{}
				}
			case <-deadline:
				nalive = 0
			}
		}
		return res
	}
	ctx.Probe("schedule-completed")
	table.VerifYield = nil
	setAutoYield(nil)
	if autoYield {
		ctx.Probe("built-with-automatic-scheduling-points")
	}
	seenID := map[uint64]bool{}
	for _, nf := range addedFaces {
		id := nf.FaceID()
		if seenID[id] || face.FaceTable.Get(id) != nf {
			res.Violation = &kit.Violation{Class: "C16/face-registration-lost", Key: "", Step: step,
				Detail: fmt.Sprintf("%d faces registered concurrently: face id %d was handed out twice, or the face holding it is not the one the face table returns for it", len(addedFaces), id)}
			return res
		}
		seenID[id] = true
	}
	if len(addedFaces) > 1 {
		ctx.Probe("faces-registered-concurrently")
	}
	if mutated != "" {
		res.Violation = &kit.Violation{Class: "C16/lookup-result-mutated-after-return", Key: c.Fib, Step: step, Detail: mutated}
		return res
	}
	// linearizability of the recorded history, final reads appended
	fin := &Op{Task: ntask, Op: "list"}
	xs := []string{}
	for _, e := range fib.GetAllFIBEntries() {
		nh := map[uint64]uint64{}
		for _, h := range e.GetNextHops() {
			nh[h.Nexthop] = h.Cost
		}
		if len(nh) > 0 {
			xs = append(xs, nstr(e.Name())+"="+nhStr(nh))
		}
	}
	sort.Strings(xs)
	ops = append(ops, porcupine.Operation{ClientId: ntask, Input: fin, Call: int64(s.counter + 1), Output: strings.Join(xs, " "), Return: int64(s.counter + 2)})
	// final lookups over the name universe (next hops and strategy), after everything completed
	fc := s.counter + 3
	universe := append([]string(nil), lookNames...)
	for i := 0; i < c.Pre; i++ {
		universe = append(universe, fmt.Sprintf("/bg/%d", i))
	}
	for _, n := range universe {
		ops = append(ops, porcupine.Operation{ClientId: ntask, Input: &Op{Task: ntask, Op: "lookup", Name: n}, Call: int64(fc), Output: renderLookup(fib.FindNextHopsEnc(mkName(n))), Return: int64(fc + 1)})
		sn := "best-route"
		if st := fib.FindStrategyEnc(mkName(n)); st != nil && len(st) >= 4 {
			sn = st[3].String()
		}
		ops = append(ops, porcupine.Operation{ClientId: ntask, Input: &Op{Task: ntask, Op: "strat", Name: n}, Call: int64(fc + 2), Output: sn, Return: int64(fc + 3)})
		fc += 4
	}
	r := porcupine.CheckOperationsTimeout(model, ops, 20*time.Second)
	switch r {
	case porcupine.Illegal:
		var sb strings.Builder
		for _, o := range ops {
			sb.WriteString(fmt.Sprintf("[%d,%d] %s; ", o.Call, o.Return, model.DescribeOperation(o.Input, o.Output)))
		}
		res.Violation = &kit.Violation{Class: "C16/history-not-linearizable", Key: linKey(ops), Step: step, Detail: sb.String()}
	case porcupine.Unknown:
		ctx.Probe("linearizability-check-timed-out")
	default:
		ctx.Probe("linearizable")
	}
	res.NonTrivial = overlapped || si > 4
	return res
}

func renderLookup(nhs []*table.FibNextHopEntry) string {
	nh := map[uint64]uint64{}
	dup := false
	for _, h := range nhs {
		if _, ok := nh[h.Nexthop]; ok {
			dup = true
		}
		nh[h.Nexthop] = h.Cost
	}
	if dup {
		return "DUPLICATE-NEXTHOP " + nhStr(nh)
	}
	return nhStr(nh)
}

// linKey names what kind of read made the history illegal, as far as it can be
// told cheaply: a lookup/list observing an empty or partial next-hop set.
func linKey(ops []porcupine.Operation) string {
	for _, o := range ops {
		if s, ok := o.Output.(string); ok && strings.HasPrefix(s, "DUPLICATE") {
			return "duplicate-nexthop"
		}
	}
	// Is the history legal once the reads that overlap a RIB update (route
	// registration/removal/face clean-up flattening into the FIB) are set aside?
	isRib := func(o porcupine.Operation) bool {
		k := o.Input.(*Op).Op
		return k == "reg" || k == "unreg" || k == "teardown" || k == "cleanup" || k == "mreg"
	}
	isRead := func(o porcupine.Operation) bool {
		k := o.Input.(*Op).Op
		return k == "lookup" || k == "list" || k == "strat" || k == "mlist" || k == "mslist" || k == "rlist"
	}
	var rest []porcupine.Operation
	for _, o := range ops {
		drop := false
		if isRead(o) {
			for _, m := range ops {
				if isRib(m) && m.Call < o.Return && o.Call < m.Return {
					drop = true
				}
			}
		}
		if !drop {
			rest = append(rest, o)
		}
	}
	if len(rest) < len(ops) && porcupine.CheckOperationsTimeout(model, rest, 10*time.Second) == porcupine.Ok {
		return "read-overlapping-rib-update"
	}
	return "other"
}

// mgmtRegister runs the table part of the management module's rib/register for a named face (real code:
// fw/mgmt registerRoute - existence check, registration, re-check).
func mgmtRegister(name enc.Name, route *table.Route) bool {
	return fwmgmt.VerifRegisterRoute(name, route)
}
