//go:build !verifauto

package schedsim

func setAutoYield(f func(tag string)) {}

const autoYield = false
