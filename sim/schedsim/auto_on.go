//go:build verifauto

package schedsim

import "github.com/named-data/ndnd/fw/verifauto"

// The simulator was built from an instrumented scratch copy of the repository (cmd/autoyield): mutex
// acquisitions without a hand-placed hook are scheduling points too.
func setAutoYield(f func(tag string)) { verifauto.Yield = f }

const autoYield = true
