// Package enginesim drives the real application engine (std/engine/basic) on a
// simulated face and a simulated timer (event heap): the scenario decides every
// interleaving of Express, Data, Nack, timer firings, handler registration and
// incoming Interests. Property C20.
package enginesim

import (
	"bytes"
	"crypto/sha256"
	"errors"
	"fmt"
	"sort"
	"strings"
	"sync"
	"testing"
	"testing/synctest"
	"time"

	enc "github.com/named-data/ndnd/std/encoding"
	basic "github.com/named-data/ndnd/std/engine/basic"
	"github.com/named-data/ndnd/std/ndn"
	spec "github.com/named-data/ndnd/std/ndn/spec_2022"
	sec "github.com/named-data/ndnd/std/security"
	"github.com/named-data/ndnd/std/utils"

	"github.com/named-data/ndnd/std/engine/dummy"

	"verifsim/kit"
)

type Config struct {
	// Harness selects the clock and face the engine runs on: "" = the simulator's own (the scenario picks which
	// due timer fires next), "dummy" = the repository's virtual-clock test timer and dummy face (std/engine/dummy),
	// which fire every due event on each clock advance.
	Harness string `json:"harness,omitempty"`
}

type Op struct {
	Op     string `json:"op"` // express data nack advance fire attach detach interest reply final
	Name   string `json:"name,omitempty"`
	CBP    bool   `json:"cbp,omitempty"`
	LifeMs int    `json:"life_ms,omitempty"` // 0 = default (4 s)
	Digest int    `json:"digest,omitempty"`  // express: 0 none, k>0: implicit digest of Data variant k-1 of Name
	Var    int    `json:"var,omitempty"`     // data: content variant
	Lp     bool   `json:"lp,omitempty"`      // data: wrapped in an LpPacket with a PIT token
	Ms     int    `json:"ms,omitempty"`
	K      int    `json:"k,omitempty"` // fire: k-th due timer; reply: k-th received Interest
	// express: the application retransmits - on a timeout or Nack its callback asks for the same Interest to be
	// expressed again (new nonce), up to Retry times in a row. As the engine's interface demands ("the callback
	// should create go routine or channel back to another routine"), the new Express call is made right after the
	// engine call that ran the callback has returned, not from inside it (from inside it deadlocks by design: the
	// engine runs callbacks with its PIT lock held)
	Retry int `json:"retry,omitempty"`
	// express: not now but from a callback of the engine's timer, AfterMs later (an application that sends on a
	// schedule). The Interest is expressed - and its lifetime starts - when that callback runs
	AfterMs int `json:"after_ms,omitempty"`
	// express: the face refuses to send this Interest (a transient error of the socket); Express returns the error.
	// Whether the application still hears about that Interest (at most once) is the engine's choice - every other
	// Interest must be served as if nothing had happened
	FailSend bool `json:"fail_send,omitempty"`
	// nack: the Nack header carries no reason (NDNLPv2: "None")
	NoReason bool `json:"no_reason,omitempty"`
	// race: the sub-operations (express / data / nack / fire) run as concurrent tasks; a cooperative scheduler lets
	// one of them run at a time and switches at the engine's lock acquisitions, Sched picks who continues
	Sub   []Op  `json:"sub,omitempty"`
	Sched []int `json:"sched,omitempty"`
}

type Engine struct{}

func (Engine) Name() string { return "enginesim" }

var comps = []string{"a", "b"}

func pickComp(r *kit.Rand) string {
	if r.Chance(0.1) {
		return kit.Pick(r, []string{"V1", "V01", "Gv", "Gw"})
	}
	return kit.Pick(r, comps)
}

func genName(r *kit.Rand, pool []string) string {
	if len(pool) > 0 && r.Chance(0.7) {
		n := kit.Pick(r, pool)
		switch r.Intn(4) {
		case 0, 1:
			return n
		case 2:
			return n + "/" + pickComp(r)
		default:
			if i := strings.LastIndex(n, "/"); i > 0 {
				return n[:i]
			}
			return n
		}
	}
	d := r.Range(1, 3)
	s := ""
	for i := 0; i < d; i++ {
		s += "/" + pickComp(r)
	}
	return s
}

func (Engine) Generate(prop string, r *kit.Rand, tier string) *kit.Scenario[Config, Op] {
	sc := &kit.Scenario[Config, Op]{}
	n := r.Range(4, 60)
	if r.Chance(0.4) {
		n = r.Range(3, 14)
	}
	switch {
	case r.Chance(0.3):
		sc.Config.Harness = "dummy"
	case r.Chance(0.03):
		sc.Config.Harness = "real"
	}
	nrace := 0
	if sc.Config.Harness == "" && r.Chance(0.3) {
		nrace = r.Range(1, 4)
	}
	var pool []string
	nexp, nint := 0, 0
	for i := 0; i < n; i++ {
		switch r.Weighted([]int{30, 25, 5, 12, 12, 5, 3, 6, 4}) {
		case 0:
			if nexp >= 12 && r.Chance(0.8) {
				continue
			}
			o := Op{Op: "express", Name: genName(r, pool), CBP: r.Chance(0.4)}
			pool = append(pool, o.Name)
			o.LifeMs = kit.Pick(r, []int{0, 10, 50, 100, 100, 500, 1000})
			if r.Chance(0.3) {
				o.LifeMs = r.Range(11, 3000) // lifetimes that are no round number of any timer granularity
			}
			if r.Chance(0.12) {
				o.Digest = r.Range(1, 2)
			}
			if r.Chance(0.15) {
				o.Retry = r.Range(1, 3)
			}
			if r.Chance(0.07) {
				o.AfterMs = kit.Pick(r, []int{1, 10, 50, 100, 500, 1000, 3999, 4000, 5000})
			} else if sc.Config.Harness == "" && r.Chance(0.04) {
				o.FailSend = true
			}
			nexp++
			sc.Ops = append(sc.Ops, o)
		case 1:
			o := Op{Op: "data", Name: genName(r, pool), Var: r.Intn(2), Lp: r.Chance(0.3)}
			sc.Ops = append(sc.Ops, o)
		case 2:
			no := Op{Op: "nack", Name: genName(r, pool)}
			if r.Chance(0.2) {
				no.Digest = r.Range(1, 2)
			}
			no.NoReason = r.Chance(0.25)
			sc.Ops = append(sc.Ops, no)
		case 3:
			sc.Ops = append(sc.Ops, Op{Op: "advance", Ms: kit.Pick(r, []int{0, 1, 9, 10, 11, 50, 100, 109, 110, 111, 500, 1010, 4010})})
		case 4:
			sc.Ops = append(sc.Ops, Op{Op: "fire", K: r.Intn(4)})
		case 5:
			sc.Ops = append(sc.Ops, Op{Op: "attach", Name: genName(r, pool)})
		case 6:
			sc.Ops = append(sc.Ops, Op{Op: "detach", Name: genName(r, pool)})
		case 7:
			nint++
			sc.Ops = append(sc.Ops, Op{Op: "interest", Name: genName(r, pool), LifeMs: kit.Pick(r, []int{0, 10, 100, 1000})})
		case 8:
			if nint > 0 {
				sc.Ops = append(sc.Ops, Op{Op: "reply", K: r.Intn(nint)})
			}
		}
	}
	for k := 0; k < nrace; k++ {
		// typically: time has just passed (timers are due), then a timer fires while the application expresses the
		// same name again and/or the Data arrives
		ro := Op{Op: "race"}
		nsub := r.Range(2, 3)
		for j := 0; j < nsub; j++ {
			switch r.Weighted([]int{4, 3, 1, 4}) {
			case 0:
				so := Op{Op: "express", Name: genName(r, pool), CBP: r.Chance(0.3), LifeMs: kit.Pick(r, []int{0, 50, 100, 500}), FailSend: r.Chance(0.15)}
				pool = append(pool, so.Name)
				ro.Sub = append(ro.Sub, so)
			case 1:
				ro.Sub = append(ro.Sub, Op{Op: "data", Name: genName(r, pool), Var: r.Intn(2)})
			case 2:
				ro.Sub = append(ro.Sub, Op{Op: "nack", Name: genName(r, pool)})
			case 3:
				ro.Sub = append(ro.Sub, Op{Op: "fire", K: r.Intn(4)})
			}
		}
		for j := 0; j < 16; j++ {
			ro.Sched = append(ro.Sched, r.Intn(6))
		}
		at := r.Intn(len(sc.Ops) + 1)
		pre := Op{Op: "advance", Ms: kit.Pick(r, []int{0, 60, 110, 111, 510, 4010})}
		ops := append([]Op(nil), sc.Ops[:at]...)
		ops = append(ops, pre, ro)
		sc.Ops = append(ops, sc.Ops[at:]...)
	}
	sc.Ops = append(sc.Ops, Op{Op: "final"})
	return sc
}

func (Engine) Simplify(sc *kit.Scenario[Config, Op]) []*kit.Scenario[Config, Op] {
	var out []*kit.Scenario[Config, Op]
	mod := func(i int, f func(o *Op)) {
		ops := append([]Op(nil), sc.Ops...)
		f(&ops[i])
		out = append(out, sc.WithOps(ops))
	}
	for i, o := range sc.Ops {
		if o.CBP {
			mod(i, func(o *Op) { o.CBP = false })
		}
		if o.Digest != 0 {
			mod(i, func(o *Op) { o.Digest = 0 })
		}
		if o.Lp {
			mod(i, func(o *Op) { o.Lp = false })
		}
		if o.LifeMs != 0 {
			mod(i, func(o *Op) { o.LifeMs = 0 })
		}
		if o.AfterMs != 0 {
			mod(i, func(o *Op) { o.AfterMs = 0 })
		}
		if o.FailSend {
			mod(i, func(o *Op) { o.FailSend = false })
		}
		if o.Retry != 0 {
			mod(i, func(o *Op) { o.Retry = 0 })
		}
		if o.Op == "fire" && o.K != 0 {
			mod(i, func(o *Op) { o.K = 0 })
		}
		if o.Op == "advance" && o.Ms > 1 {
			mod(i, func(o *Op) { o.Ms /= 2 })
		}
	}
	return out
}

// ---------------------------------------------------------------- simulated face and timer

type simFace struct {
	running bool
	onPkt   func(r enc.ParseReader) error
	onErr   func(err error) error
	sent    [][]byte
	// nonces of the Interests that the face will refuse to send (once each)
	failNonce map[uint32]bool
	failed    int
}

func (f *simFace) Open() error     { f.running = true; return nil }
func (f *simFace) Close() error    { f.running = false; return nil }
func (f *simFace) IsRunning() bool { return f.running }
func (f *simFace) IsLocal() bool   { return true }
func (f *simFace) SetCallback(onPkt func(r enc.ParseReader) error, onError func(err error) error) {
	f.onPkt, f.onErr = onPkt, onError
}
func (f *simFace) Send(pkt enc.Wire) error {
	raw := pkt.Join()
	for n := range f.failNonce {
		if bytes.Contains(raw, []byte{0x0a, 0x04, byte(n >> 24), byte(n >> 16), byte(n >> 8), byte(n)}) {
			delete(f.failNonce, n)
			f.failed++
			return errors.New("simulated: no buffer space available")
		}
	}
	f.sent = append(f.sent, raw)
	return nil
}

// lockedFace serialises Send (the production timer runs callbacks on their own goroutines).
type lockedFace struct {
	*simFace
	mu *sync.Mutex
}

func (f *lockedFace) Send(pkt enc.Wire) error {
	f.mu.Lock()
	defer f.mu.Unlock()
	return f.simFace.Send(pkt)
}

type simEvent struct {
	at        time.Time
	seq       int
	f         func()
	cancelled bool
	fired     bool
}

type simTimer struct {
	now    time.Time
	seq    int
	events []*simEvent
}

func (t *simTimer) Now() time.Time        { return t.now }
func (t *simTimer) Sleep(d time.Duration) { panic("harness: Sleep is not simulated") }
func (t *simTimer) Nonce() []byte {
	t.seq++
	return []byte{1, 2, 3, 4, 5, 6, byte(t.seq >> 8), byte(t.seq)}
}
func (t *simTimer) Schedule(d time.Duration, f func()) func() error {
	t.seq++
	ev := &simEvent{at: t.now.Add(d), seq: t.seq, f: f}
	t.events = append(t.events, ev)
	return func() error {
		if ev.fired || ev.cancelled {
			return fmt.Errorf("event has already been canceled or fired")
		}
		ev.cancelled = true
		return nil
	}
}
func (t *simTimer) due() []*simEvent {
	var d []*simEvent
	for _, e := range t.events {
		if !e.cancelled && !e.fired && !e.at.After(t.now) {
			d = append(d, e)
		}
	}
	sort.Slice(d, func(i, j int) bool {
		if !d[i].at.Equal(d[j].at) {
			return d[i].at.Before(d[j].at)
		}
		return d[i].seq < d[j].seq
	})
	return d
}

// ---------------------------------------------------------------- model

type pend struct {
	sendFailed bool // Express returned the face's error for this one
	id         int
	name       string // digest stripped
	cbp        bool
	digest     []byte
	t0         time.Time
	life       time.Duration
	results    []string
}

type inInterest struct {
	name     string
	handler  string
	deadline time.Time
	reply    func(enc.Wire) error
}

// mkName: "/"-separated components; three spellings stand for components that look alike and are different:
// V1 = version component with value 01, V01 = version component with the non-minimal value 00 01, Gv = generic
// component whose bytes are "v=1".
func mkName(s string) enc.Name {
	var n enc.Name
	for _, c := range strings.Split(strings.Trim(s, "/"), "/") {
		switch c {
		case "":
		case "V1":
			n = append(n, enc.Component{Typ: enc.TypeVersionNameComponent, Val: []byte{1}})
		case "V01":
			n = append(n, enc.Component{Typ: enc.TypeVersionNameComponent, Val: []byte{0, 1}})
		case "Gv":
			n = append(n, enc.Component{Typ: enc.TypeGenericNameComponent, Val: []byte("v=1")})
		case "Gw":
			// a generic component whose value is the encoded form of V1 (type, length, 01)
			n = append(n, enc.Component{Typ: enc.TypeGenericNameComponent, Val: []byte{byte(enc.TypeVersionNameComponent), 1, 1}})
		default:
			n = append(n, enc.NewStringComponent(enc.TypeGenericNameComponent, c))
		}
	}
	return n
}

func isPrefix(p, n string) bool { return n == p || strings.HasPrefix(n, p+"/") }

func (e Engine) Run(t *testing.T, ctx *kit.Ctx, sc *kit.Scenario[Config, Op]) *kit.Result {
	if sc.Config.Harness == "real" {
		// the engine on its production timer (time.AfterFunc), inside a bubble: the clock is the bubble's,
		// timeouts run on timer goroutines, the harness steps from quiescence to quiescence
		var out *kit.Result
		var pan any
		var site string
		synctest.Test(t, func(t *testing.T) {
			defer func() {
				if p := recover(); p != nil {
					pan, site = p, kit.PanicSite()
				}
			}()
			out = e.runBody(t, ctx, sc)
		})
		if pan != nil {
			if strings.HasPrefix(site, "harness:") {
				panic(pan)
			}
			return &kit.Result{Violation: &kit.Violation{Class: "C20/panic", Key: site, Step: -1, Detail: fmt.Sprint(pan)}}
		}
		return out
	}
	return e.runBody(t, ctx, sc)
}

func (e Engine) runBody(t *testing.T, ctx *kit.Ctx, sc *kit.Scenario[Config, Op]) *kit.Result {
	res := &kit.Result{}
	face := &simFace{}
	start := time.Date(2000, 1, 1, 0, 0, 0, 0, time.UTC)
	timer := &simTimer{now: start}
	signer := sec.NewSha256Signer()
	useDummy := sc.Config.Harness == "dummy"
	useReal := sc.Config.Harness == "real"
	var dtimer *dummy.Timer
	var dface *dummy.DummyFace
	dsent := 0
	nowT := func() time.Time { return timer.now }
	sentCount := func() int { return len(face.sent) }
	feedPkt := func(b []byte) { face.onPkt(enc.NewBufferReader(b)) }
	var eng *basic.Engine
	if useDummy {
		dtimer, dface = dummy.NewTimer(), dummy.NewDummyFace()
		start = dtimer.Now()
		nowT = func() time.Time { return dtimer.Now() }
		sentCount = func() int {
			for {
				if _, err := dface.Consume(); err != nil {
					break
				}
				dsent++
			}
			return dsent
		}
		feedPkt = func(b []byte) { dface.FeedPacket(b) }
		eng = basic.NewEngine(dface, dtimer, signer, func(enc.Name, enc.Wire, ndn.Signature) bool { return true })
		ctx.Probe("engine-on-dummy-timer-and-face")
	} else if useReal {
		start = time.Now()
		nowT = func() time.Time { return time.Now() }
		var mu sync.Mutex // Send is reached from timer goroutines too
		rface := &lockedFace{simFace: face, mu: &mu}
		sentCount = func() int { mu.Lock(); defer mu.Unlock(); return len(face.sent) }
		eng = basic.NewEngine(rface, basic.NewTimer(), signer, func(enc.Name, enc.Wire, ndn.Signature) bool { return true })
		ctx.Probe("engine-on-production-timer-in-bubble")
	} else {
		eng = basic.NewEngine(face, timer, signer, func(enc.Name, enc.Wire, ndn.Signature) bool { return true })
	}
	if err := eng.Start(); err != nil {
		panic("harness: engine start: " + err.Error())
	}
	var pends []*pend
	handlers := map[string]bool{}
	var received []*inInterest
	step := 0
	fail := func(class, key, format string, a ...any) *kit.Result {
		res.Violation = &kit.Violation{Class: class, Key: key, Step: step, Detail: fmt.Sprintf(format, a...)}
		return res
	}
	dataCache := map[string][]byte{}
	dataWire := func(name string, v int) []byte {
		k := fmt.Sprintf("%s|%d", name, v)
		if w, ok := dataCache[k]; ok {
			return w
		}
		ed, err := spec.Spec{}.MakeData(mkName(name), &ndn.DataConfig{ContentType: utils.IdPtr(ndn.ContentTypeBlob)},
			enc.Wire{[]byte(fmt.Sprintf("variant-%d", v))}, signer)
		if err != nil {
			panic("harness: MakeData: " + err.Error())
		}
		w := ed.Wire.Join()
		dataCache[k] = w
		return w
	}
	// the result delivered by the callback currently executing
	type cbRec struct {
		id   int
		kind string
		data string
		raw  []byte
	}
	var cbs []cbRec
	kinds := map[string]bool{}
	maxPending := 0
	dg := kit.NewDigest()

	// the application's result callback is a scheduling point too while calls race (the engine runs it with its
	// lock held; code that runs it without the lock lets the other calls in)
	appYield := func() {
		if y := basic.VerifYield; y != nil {
			y("app.callback")
		}
	}
	checkOnce := func() *kit.Result {
		for _, p := range pends {
			if len(p.results) > 1 {
				return fail("C20/callback-invoked-twice", strings.Join(p.results, "+"), "Interest #%d %s resolved %d times: %v", p.id, p.name, len(p.results), p.results)
			}
		}
		return nil
	}

	gotInStep := func(id int) bool {
		for _, c := range cbs {
			if c.id == id {
				return true
			}
		}
		return false
	}
	var expressFn func(nm string, cbp bool, lifeMs, digest, retry int, fromCb bool) *kit.Result
	failNextSend := false    // the next Express of the harness goroutine meets a send error
	planned, started := 0, 0 // Interests to be expressed from a timer callback: scheduled / callback has run
	var lastPlanned time.Time
	var cbFail *kit.Result          // a failure of a retransmission
	var retryQ []func() *kit.Result // retransmissions asked for by callbacks, made once the engine call has returned
	drainRetries := func() {
		for len(retryQ) > 0 {
			f := retryQ[0]
			retryQ = retryQ[1:]
			ctx.Probe("retransmission-after-timeout-or-nack")
			if rr := f(); rr != nil && cbFail == nil {
				cbFail = rr
			}
		}
	}
	expressFn = func(nm string, cbp bool, lifeMs, digest, retry int, fromCb bool) *kit.Result {
		name := mkName(nm)
		p := &pend{id: len(pends), name: nm, cbp: cbp, t0: nowT()}
		if digest > 0 {
			sum := sha256.Sum256(dataWire(nm, digest-1))
			p.digest = sum[:]
			name = append(name.Clone(), enc.Component{Typ: enc.TypeImplicitSha256DigestComponent, Val: sum[:]})
		}
		cfg := &ndn.InterestConfig{CanBePrefix: cbp, Nonce: utils.IdPtr(uint64(1000 + len(pends)))}
		p.life = 4 * time.Second
		if lifeMs > 0 {
			p.life = time.Duration(lifeMs) * time.Millisecond
			cfg.Lifetime = utils.IdPtr(p.life)
		}
		ei, err := spec.Spec{}.MakeInterest(name, cfg, nil, nil)
		if err != nil {
			panic("harness: MakeInterest: " + err.Error())
		}
		pends = append(pends, p)
		id := p.id
		if failNextSend {
			failNextSend = false
			if face.failNonce == nil {
				face.failNonce = map[uint32]bool{}
			}
			face.failNonce[uint32(1000+id)] = true
			p.sendFailed = true
			ctx.Fault("send-error")
		}
		err = eng.Express(ei, func(a ndn.ExpressCallbackArgs) {
			r := cbRec{id: id}
			switch a.Result {
			case ndn.InterestResultData:
				r.kind = "data"
				if a.Data != nil {
					r.data = a.Data.Name().String()
				}
				r.raw = append([]byte(nil), a.RawData.Join()...)
			case ndn.InterestResultNack:
				r.kind = "nack"
			case ndn.InterestResultTimeout:
				r.kind = "timeout"
			default:
				r.kind = fmt.Sprintf("other-%d", a.Result)
			}
			cbs = append(cbs, r)
			appYield()
			if retry > 0 && (r.kind == "timeout" || r.kind == "nack") {
				retryQ = append(retryQ, func() *kit.Result { return expressFn(nm, cbp, lifeMs, digest, retry-1, true) })
			}
		})
		if err != nil && !p.sendFailed {
			return fail("C20/express-failed", "", "Express(%s) returned %v (from inside a callback: %v)", nm, err, fromCb)
		}
		return nil
	}

	for i, op := range sc.Ops {
		step = i
		cbs = cbs[:0]
		nsent := sentCount()
		switch op.Op {
		case "express":
			if op.AfterMs > 0 && !useReal {
				// (not on the production timer: its callbacks run on goroutines of their own, and this harness's
				// bookkeeping is only serialised by the engine's lock, which a timer callback does not hold)
				op := op
				planned++
				at := nowT().Add(time.Duration(op.AfterMs) * time.Millisecond)
				if at.After(lastPlanned) {
					lastPlanned = at
				}
				ctx.Probe("express-from-timer-callback")
				eng.Timer().Schedule(time.Duration(op.AfterMs)*time.Millisecond, func() {
					started++
					if rr := expressFn(op.Name, op.CBP, op.LifeMs, op.Digest, op.Retry, false); rr != nil && cbFail == nil {
						cbFail = rr
					}
				})
				break
			}
			failNextSend = op.FailSend && !useDummy && !useReal
			wantSent := 1
			if failNextSend {
				wantSent = 0
			}
			if r := expressFn(op.Name, op.CBP, op.LifeMs, op.Digest, op.Retry, false); r != nil {
				return r
			}
			if sentCount() != nsent+wantSent {
				return fail("C20/interest-not-transmitted", "", "Express(%s) put %d packets on the face", op.Name, sentCount()-nsent)
			}
		case "data":
			w := dataWire(op.Name, op.Var)
			feed := append([]byte(nil), w...)
			if op.Lp {
				lp := &spec.Packet{LpPacket: &spec.LpPacket{PitToken: []byte{1, 2, 3, 4}, Fragment: enc.Wire{feed}}}
				encoder := spec.PacketEncoder{}
				encoder.Init(lp)
				feed = encoder.Encode(lp).Join()
			}
			feedPkt(feed)
			// recycle the receive buffer, as a real face may
			for j := range feed {
				feed[j] = 0xEE
			}
		case "nack":
			nn := mkName(op.Name)
			if op.Digest > 0 {
				// a Nack for an Interest that carried an implicit digest: the name in the Nack ends with it
				sum := sha256.Sum256(dataWire(op.Name, op.Digest-1))
				nn = append(nn.Clone(), enc.Component{Typ: enc.TypeImplicitSha256DigestComponent, Val: sum[:]})
				ctx.Probe("nack-for-a-name-with-implicit-digest")
			}
			ei, _ := spec.Spec{}.MakeInterest(nn, &ndn.InterestConfig{Nonce: utils.IdPtr(uint64(7))}, nil, nil)
			reason := uint64(spec.NackReasonNoRoute)
			if op.NoReason {
				reason = spec.NackReasonNone
				ctx.Probe("nack-without-a-reason")
			}
			lp := &spec.Packet{LpPacket: &spec.LpPacket{Nack: &spec.NetworkNack{Reason: reason}, Fragment: ei.Wire}}
			encoder := spec.PacketEncoder{}
			encoder.Init(lp)
			nrecv := len(received)
			feedPkt(encoder.Encode(lp).Join())
			if len(received) != nrecv {
				return fail("C20/nack-handed-to-interest-handler", "", "a Nack for %s (reason %d) was handed to the Interest handler %q as an incoming Interest", op.Name, reason, received[len(received)-1].handler)
			}
		case "advance":
			if useDummy {
				dtimer.MoveForward(time.Duration(op.Ms) * time.Millisecond)
			} else if useReal {
				time.Sleep(time.Duration(op.Ms) * time.Millisecond)
				synctest.Wait()
			} else {
				timer.now = timer.now.Add(time.Duration(op.Ms) * time.Millisecond)
			}
		case "fire":
			if useDummy {
				dtimer.MoveForward(0)
			} else if useReal {
				synctest.Wait()
			} else if d := timer.due(); len(d) > 0 {
				ev := d[op.K%len(d)]
				ev.fired = true
				ev.f()
				ctx.Probe("timer-fired")
			}
		case "race":
			if useDummy || useReal {
				break
			}
			ctx.Fault("concurrent-engine-calls")
			type rmsg struct {
				task int
				tag  string
				done bool
				pan  any
				site string
			}
			nt := len(op.Sub)
			toSched := make(chan rmsg)
			resume := make([]chan struct{}, nt)
			cur := 0
			basic.VerifYield = func(tag string) {
				me := cur
				toSched <- rmsg{task: me, tag: tag}
				<-resume[me]
			}
			type rdata struct {
				name string
				raw  []byte
			}
			var raceData []rdata // the Data packets of this race
			raceNack := map[string]bool{}
			for ti := range op.Sub {
				ti := ti
				so := op.Sub[ti]
				resume[ti] = make(chan struct{})
				go func() {
					<-resume[ti]
					defer func() {
						if p := recover(); p != nil {
							toSched <- rmsg{task: ti, done: true, pan: p, site: kit.PanicSite()}
							return
						}
						toSched <- rmsg{task: ti, done: true}
					}()
					switch so.Op {
					case "express":
						p := &pend{id: len(pends), name: so.Name, cbp: so.CBP, t0: nowT(), life: 4 * time.Second}
						cfg := &ndn.InterestConfig{CanBePrefix: so.CBP, Nonce: utils.IdPtr(uint64(1000 + len(pends)))}
						if so.LifeMs > 0 {
							p.life = time.Duration(so.LifeMs) * time.Millisecond
							cfg.Lifetime = utils.IdPtr(p.life)
						}
						ei, err := spec.Spec{}.MakeInterest(mkName(so.Name), cfg, nil, nil)
						if err != nil {
							panic("harness: MakeInterest: " + err.Error())
						}
						pends = append(pends, p)
						id := p.id
						if so.FailSend {
							if face.failNonce == nil {
								face.failNonce = map[uint32]bool{}
							}
							face.failNonce[uint32(1000+id)] = true
							p.sendFailed = true
							ctx.Fault("send-error")
						}
						eng.Express(ei, func(a ndn.ExpressCallbackArgs) {
							r := cbRec{id: id}
							switch a.Result {
							case ndn.InterestResultData:
								r.kind = "data"
								if a.Data != nil {
									r.data = a.Data.Name().String()
								}
								r.raw = append([]byte(nil), a.RawData.Join()...)
							case ndn.InterestResultNack:
								r.kind = "nack"
							case ndn.InterestResultTimeout:
								r.kind = "timeout"
							default:
								r.kind = fmt.Sprintf("other-%d", a.Result)
							}
							cbs = append(cbs, r)
							appYield()
						})
					case "data":
						feedPkt(append([]byte(nil), dataWire(so.Name, so.Var)...))
					case "nack":
						ei, _ := spec.Spec{}.MakeInterest(mkName(so.Name), &ndn.InterestConfig{Nonce: utils.IdPtr(uint64(7))}, nil, nil)
						lp := &spec.Packet{LpPacket: &spec.LpPacket{Nack: &spec.NetworkNack{Reason: spec.NackReasonNoRoute}, Fragment: ei.Wire}}
						encoder := spec.PacketEncoder{}
						encoder.Init(lp)
						feedPkt(encoder.Encode(lp).Join())
					case "fire":
						if d := timer.due(); len(d) > 0 {
							ev := d[so.K%len(d)]
							if !ev.fired {
								ev.fired = true
								ev.f()
							}
						}
					}
				}()
				switch so.Op {
				case "data":
					raceData = append(raceData, rdata{so.Name, dataWire(so.Name, so.Var)})
				case "nack":
					raceNack[so.Name] = true
				}
			}
			alive := make([]bool, nt)
			blocked := make([]bool, nt)
			for i := range alive {
				alive[i] = true
			}
			nalive, si, stuckRounds := nt, 0, 0
			var racePanic *rmsg
			for nalive > 0 {
				var cand []int
				for i := 0; i < nt; i++ {
					if alive[i] && !blocked[i] {
						cand = append(cand, i)
					}
				}
				if len(cand) == 0 {
					stuckRounds++
					if stuckRounds > 4*nt {
						basic.VerifYield = nil
						return fail("C20/deadlock", "", "every unfinished concurrent engine call is blocked on an engine lock")
					}
					for i := range blocked {
						blocked[i] = false
					}
					continue
				}
				pick := cand[0]
				if si < len(op.Sched) {
					pick = cand[op.Sched[si]%len(cand)]
					si++
				}
				cur = pick
				resume[pick] <- struct{}{}
				var m rmsg
				select {
				case m = <-toSched:
				case <-time.After(20 * time.Second):
					basic.VerifYield = nil
					return fail("C20/engine-call-stuck", "", "a concurrent engine call neither reached a scheduling point nor returned within 20 s")
				}
				if m.done {
					alive[m.task] = false
					nalive--
					if m.pan != nil && racePanic == nil {
						mm := m
						racePanic = &mm
					}
					stuckRounds = 0
					for i := range blocked {
						blocked[i] = false
					}
					continue
				}
				if strings.HasPrefix(m.tag, "blocked:") {
					blocked[m.task] = true
					continue
				}
				stuckRounds = 0
				for i := range blocked {
					blocked[i] = false
				}
			}
			basic.VerifYield = nil
			if racePanic != nil {
				if strings.HasPrefix(racePanic.site, "harness:") {
					panic(racePanic.pan)
				}
				return fail("C20/panic", racePanic.site, "%v", racePanic.pan)
			}
			// oracle of a race: every result must be justified by one of the concurrent stimuli
			nowR := nowT()
			for _, cb := range cbs {
				p := pends[cb.id]
				p.results = append(p.results, cb.kind)
				kinds[cb.kind] = true
				switch cb.kind {
				case "data":
					ok := false
					for _, rd := range raceData {
						if (p.name == rd.name || (p.cbp && isPrefix(p.name, rd.name))) && mkName(rd.name).String() == cb.data && string(rd.raw) == string(cb.raw) {
							ok = true
						}
					}
					if !ok {
						return fail("C20/resolved-with-unsatisfying-data", "race", "Interest #%d %s resolved with Data %s, which none of the concurrently arriving Data packets justifies", p.id, p.name, cb.data)
					}
				case "nack":
					if !raceNack[p.name] {
						return fail("C20/nack-for-other-name", "race", "Interest #%d %s resolved with Nack, no Nack for that name arrived", p.id, p.name)
					}
				case "timeout":
					if nowR.Before(p.t0.Add(p.life)) {
						return fail("C20/timeout-before-lifetime", "race", "Interest #%d %s timed out at %v, lifetime ends %v", p.id, p.name, nowR.Sub(start), p.t0.Add(p.life).Sub(start))
					}
				}
			}
			cbs = cbs[:0]
			if r := checkOnce(); r != nil {
				return r
			}
			ctx.Probe("race-of-engine-calls")
		case "attach":
			h := op.Name
			err := eng.AttachHandler(mkName(h), func(a ndn.InterestHandlerArgs) {
				received = append(received, &inInterest{name: a.Interest.Name().String(), handler: h, deadline: a.Deadline, reply: a.Reply})
			})
			if handlers[h] {
				if err == nil {
					return fail("C20/duplicate-handler-accepted", "", "second handler attached at %s", h)
				}
			} else {
				if err != nil {
					return fail("C20/attach-refused", "", "AttachHandler(%s) = %v with handlers %v", h, err, keysOf(handlers))
				}
				handlers[h] = true
			}
		case "detach":
			err := eng.DetachHandler(mkName(op.Name))
			if handlers[op.Name] {
				if err != nil {
					return fail("C20/detach-refused", "", "DetachHandler(%s) = %v", op.Name, err)
				}
				delete(handlers, op.Name)
			}
			// detaching a prefix with no handler: either outcome (error or no-op) is acceptable
		case "interest":
			cfg := &ndn.InterestConfig{Nonce: utils.IdPtr(uint64(50 + i))}
			life := 4 * time.Second
			if op.LifeMs > 0 {
				life = time.Duration(op.LifeMs) * time.Millisecond
				cfg.Lifetime = utils.IdPtr(life)
			}
			ei, _ := spec.Spec{}.MakeInterest(mkName(op.Name), cfg, nil, nil)
			before := len(received)
			feedPkt(ei.Wire.Join())
			want := ""
			for h := range handlers {
				if isPrefix(h, op.Name) && len(h) > len(want) {
					want = h
				}
			}
			got := ""
			if len(received) > before {
				got = received[len(received)-1].handler
			}
			if len(received) > before+1 {
				return fail("C20/interest-dispatched-twice", "", "incoming Interest %s reached %d handlers", op.Name, len(received)-before)
			}
			if got != want {
				return fail("C20/incoming-interest-wrong-handler", handlerKey(got, want), "incoming Interest %s reached handler %q, longest attached prefix is %q (attached: %v)", op.Name, got, want, keysOf(handlers))
			}
			if len(received) == before {
				// keep indices stable for reply ops
				received = append(received, nil)
			}
			ctx.Probe("incoming-interest")
		case "reply":
			if op.K < len(received) && received[op.K] != nil {
				in := received[op.K]
				err := in.reply(enc.Wire{dataWire(in.name, 0)})
				sent := sentCount() - nsent
				if !nowT().Before(in.deadline) {
					// "only before that Interest's deadline": the deadline itself is too late
					ctx.Probe("reply-after-deadline")
					if nowT().Equal(in.deadline) {
						ctx.Probe("reply-at-the-deadline")
					}
					if sent != 0 || err == nil {
						return fail("C20/reply-after-deadline-transmitted", "", "reply to %s at %v, deadline %v: err=%v, %d packets sent", in.name, nowT().Sub(start), in.deadline.Sub(start), err, sent)
					}
				} else if nowT().Before(in.deadline) {
					if sent != 1 || err != nil {
						return fail("C20/reply-before-deadline-not-transmitted", "", "reply to %s before its deadline: err=%v, %d packets sent", in.name, err, sent)
					}
				}
			}
		case "final":
			// faults stop: run the clock beyond every deadline and fire everything due; retransmissions from inside
			// callbacks create new deadlines, so repeat until nothing is pending (bounded by the retry depth)
			for round := 0; round < 8; round++ {
				open := 0
				for _, p := range pends {
					if len(p.results) == 0 && !gotInStep(p.id) {
						open++
					}
				}
				if started < planned {
					open++
				}
				if open == 0 && round > 0 {
					break
				}
				far := nowT()
				if lastPlanned.After(far) {
					far = lastPlanned
				}
				for _, p := range pends {
					if d := p.t0.Add(p.life); d.After(far) {
						far = d
					}
				}
				if useDummy {
					dtimer.MoveForward(far.Sub(nowT()) + time.Second)
					dtimer.MoveForward(time.Second)
				}
				if useReal {
					time.Sleep(far.Sub(nowT()) + 2*time.Second)
					synctest.Wait()
				}
				if !useDummy && !useReal {
					timer.now = far.Add(time.Second)
				}
				for guard := 0; guard < 10000 && !useDummy && !useReal; guard++ {
					d := timer.due()
					if len(d) == 0 {
						break
					}
					d[0].fired = true
					d[0].f()
					drainRetries()
				}
				drainRetries()
			}
		}
		drainRetries()
		if cbFail != nil {
			return cbFail
		}
		res.Steps++
		// ---- oracle over the callbacks of this step
		now := nowT()
		var dataName string
		var dataRaw []byte
		if op.Op == "data" {
			dataName, dataRaw = op.Name, dataWire(op.Name, op.Var)
		}
		got := map[int]bool{}
		for _, cb := range cbs {
			p := pends[cb.id]
			p.results = append(p.results, cb.kind)
			kinds[cb.kind] = true
			got[cb.id] = true
			switch cb.kind {
			case "data":
				if op.Op != "data" {
					return fail("C20/data-result-without-data", op.Op, "Interest #%d %s resolved with Data during %s", p.id, p.name, op.Op)
				}
				ok := p.name == dataName || (p.cbp && isPrefix(p.name, dataName))
				if ok && p.digest != nil {
					sum := sha256.Sum256(dataRaw)
					ok = string(sum[:]) == string(p.digest)
				}
				if !ok {
					return fail("C20/resolved-with-unsatisfying-data", dataKey(p, dataName), "Interest #%d %s (cbp=%v digest=%v) resolved with Data %s", p.id, p.name, p.cbp, p.digest != nil, dataName)
				}
				if mkName(dataName).String() != cb.data || string(cb.raw) != string(dataRaw) {
					return fail("C20/data-result-altered", "", "callback Data %s differs from delivered Data %s", cb.data, dataName)
				}
			case "nack":
				same := op.Op == "nack" && p.name == op.Name
				if same {
					// "a Nack for that name": the implicit digest is part of the name
					var nd []byte
					if op.Digest > 0 {
						sum := sha256.Sum256(dataWire(op.Name, op.Digest-1))
						nd = sum[:]
					}
					same = string(nd) == string(p.digest)
				}
				if !same {
					return fail("C20/nack-for-other-name", "", "Interest #%d %s (digest %v) resolved with Nack during %s %s (digest variant %d)", p.id, p.name, p.digest != nil, op.Op, op.Name, op.Digest)
				}
			case "timeout":
				if now.Before(p.t0.Add(p.life)) {
					return fail("C20/timeout-before-lifetime", "", "Interest #%d %s timed out at %v, lifetime ends %v", p.id, p.name, now.Sub(start), p.t0.Add(p.life).Sub(start))
				}
			default:
				return fail("C20/unknown-result", cb.kind, "Interest #%d resolved with %s", p.id, cb.kind)
			}
		}
		if r := checkOnce(); r != nil {
			return r
		}
		if op.Op == "data" {
			sum := sha256.Sum256(dataRaw)
			for _, p := range pends {
				if len(p.results) > 0 || got[p.id] || p.sendFailed {
					continue
				}
				sat := p.name == dataName || (p.cbp && isPrefix(p.name, dataName))
				if sat && p.digest != nil {
					sat = string(sum[:]) == string(p.digest)
				}
				if sat && !now.After(p.t0.Add(p.life)) {
					return fail("C20/satisfying-data-not-delivered", c20Shape(p, dataName, pends), "Data %s arrived at %v but pending Interest #%d %s (cbp=%v, expressed %v, lifetime %v) was not resolved", dataName, now.Sub(start), p.id, p.name, p.cbp, p.t0.Sub(start), p.life)
				}
			}
		}
		unresolved := 0
		for _, p := range pends {
			if len(p.results) == 0 {
				unresolved++
			}
		}
		if unresolved > maxPending {
			maxPending = unresolved
		}
		if op.Op == "final" {
			for _, p := range pends {
				if p.sendFailed && len(p.results) == 0 {
					continue // it never left; the application was told so by Express
				}
				if len(p.results) != 1 {
					return fail("C20/interest-never-resolved", "", "Interest #%d %s (expressed %v, lifetime %v) has %d results after every deadline passed and all timers fired", p.id, p.name, p.t0.Sub(start), p.life, len(p.results))
				}
			}
		}
		sd := kit.NewDigest().I(unresolved).I(len(cbs)).I(len(received)).I(sentCount() - nsent)
		ctx.State(sd.Sum())
		dg.U(sd.Sum())
	}
	res.SimNanos = int64(nowT().Sub(start))
	res.Digest = dg.Sum()
	res.NonTrivial = maxPending >= 2 && len(kinds) >= 2
	return res
}

func keysOf(m map[string]bool) []string {
	out := []string{}
	for k := range m {
		out = append(out, k)
	}
	sort.Strings(out)
	return out
}

func handlerKey(got, want string) string {
	switch {
	case got == "" && want != "":
		return "handler-lost"
	case got != "" && want == "":
		return "stale-handler"
	default:
		return "not-longest-prefix"
	}
}

func dataKey(p *pend, dataName string) string {
	switch {
	case p.digest != nil:
		return "digest"
	case isPrefix(p.name, dataName) && !p.cbp:
		return "longer-without-canbeprefix"
	default:
		return "unrelated-name"
	}
}

// c20Shape names the structural situation of a missed delivery: whether other
// pending Interests sit on ancestor/descendant names (the trie pruning cases).
func c20Shape(p *pend, dataName string, all []*pend) string {
	anc, desc := false, false
	for _, q := range all {
		if q == p {
			continue
		}
		if q.name != p.name && isPrefix(q.name, p.name) {
			anc = true
		}
		if q.name != p.name && isPrefix(p.name, q.name) {
			desc = true
		}
	}
	k := "exact"
	if p.name != dataName {
		k = "prefix"
	}
	if anc {
		k += "/with-ancestor-interest"
	}
	if desc {
		k += "/with-descendant-interest"
	}
	return k
}
