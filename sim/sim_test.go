package sim

import (
	"fmt"
	"os"
	"testing"

	"verifsim/cssim"
	"verifsim/kit"
	"verifsim/mgmtsim"
	"verifsim/objsim"
	"verifsim/schedsim"
	"verifsim/svsim"
	"verifsim/dvsim"
	"verifsim/enginesim"
	"verifsim/facesim"
	"verifsim/fwsim"
	"verifsim/tablesim"
)

// TestSim is the single entry point of the simulator binary; the command is
// passed as JSON in env VERIF_ARGS (see kit.Args). synctest needs a *testing.T,
// which is why the simulator is a test binary.
func TestSim(t *testing.T) {
	a := kit.ParseArgs()
	if a == nil {
		t.Skip("VERIF_ARGS not set")
	}
	if a.Mode == "replay" || a.Mode == "shrinkhard" {
		a.Prop, a.Engine = kit.PeekScenario(a.File)
	}
	switch a.Engine {
	case "enginesim":
		kit.Drive(t, enginesim.Engine{}, a)
	case "linksim":
		kit.Drive(t, facesim.LinkEngine{}, a)
	case "rxsim":
		kit.Drive(t, facesim.RxEngine{}, a)
	case "streamsim":
		kit.Drive(t, facesim.StreamEngine{}, a)
	case "mgmtsim":
		kit.Drive(t, mgmtsim.Engine{}, a)
	case "schedsim":
		kit.Drive(t, schedsim.Engine{}, a)
	case "objsim":
		kit.Drive(t, objsim.Engine{}, a)
	case "dvsim":
		kit.Drive(t, dvsim.Engine{}, a)
	case "svsim":
		kit.Drive(t, svsim.Engine{}, a)
	case "fwsim":
		kit.Drive(t, fwsim.Engine{}, a)
	case "tablesim":
		kit.Drive(t, tablesim.Engine{}, a)
	case "cssim":
		kit.Drive(t, cssim.Engine{}, a)
	default:
		fmt.Fprintln(os.Stderr, "no engine", a.Engine, "for property", a.Prop)
		os.Exit(2)
	}
}
