package fwsim

import (
	"bytes"
	"encoding/hex"
	"fmt"
	"sort"
	"strings"
	"testing"
	"testing/synctest"
	"time"

	"github.com/named-data/ndnd/fw/core"
	"github.com/named-data/ndnd/fw/defn"
	"github.com/named-data/ndnd/fw/dispatch"
	"github.com/named-data/ndnd/fw/face"
	"github.com/named-data/ndnd/fw/fw"
	"github.com/named-data/ndnd/fw/table"
	enc "github.com/named-data/ndnd/std/encoding"
	"github.com/named-data/ndnd/std/ndn"
	spec "github.com/named-data/ndnd/std/ndn/spec_2022"
	sec "github.com/named-data/ndnd/std/security"
	"github.com/named-data/ndnd/std/utils"

	"verifsim/kit"
)

type Engine struct{}

func (Engine) Name() string { return "fwsim" }

const (
	slack       = 150 * time.Millisecond // one reaper/sweeper period plus margin
	reapSlack   = 250 * time.Millisecond // "shortly after" / "promptly": two reaper periods plus margin
	suppressMin = 450 * time.Millisecond // must-suppress strictly inside the documented 500 ms interval
)

// ------------------------------------------------------------------ fake face

type emission struct {
	face   uint64
	isData bool
	name   string
	raw    []byte
	token  []byte
	hop    int // -1 absent
	nonce  uint32
	hasNon bool
}

type simFace struct {
	id    uint64
	scope defn.Scope
	link  defn.LinkType
	sink  *[]emission
	held  *[]heldPkt
}

// heldPkt: a packet as it was handed to a face (the slices themselves, which a real link service keeps in its send
// queue until it encodes the frame) next to copies taken at that moment.
type heldPkt struct {
	face             uint64
	rawRef, tokRef   []byte
	rawCopy, tokCopy []byte
}

func (f *simFace) String() string          { return fmt.Sprintf("simface-%d", f.id) }
func (f *simFace) SetFaceID(id uint64)     { f.id = id }
func (f *simFace) FaceID() uint64          { return f.id }
func (f *simFace) LocalURI() *defn.URI     { return nil }
func (f *simFace) RemoteURI() *defn.URI    { return nil }
func (f *simFace) Scope() defn.Scope       { return f.scope }
func (f *simFace) LinkType() defn.LinkType { return f.link }
func (f *simFace) MTU() int                { return 8800 }
func (f *simFace) State() defn.State       { return defn.Up }
func (f *simFace) SendPacket(out dispatch.OutPkt) {
	e := emission{face: f.id, hop: -1}
	e.raw = append([]byte(nil), out.Pkt.Raw...)
	e.token = append([]byte(nil), out.PitToken...)
	// re-parse what would go on the wire
	p, _, err := spec.ReadPacket(enc.NewBufferReader(append([]byte(nil), e.raw...)))
	if err != nil || (p.Interest == nil && p.Data == nil) {
		e.name = "<undecodable>"
	} else if p.Interest != nil {
		e.name = nstr(p.Interest.NameV)
		if p.Interest.HopLimitV != nil {
			e.hop = int(*p.Interest.HopLimitV)
		}
		if p.Interest.NonceV != nil {
			e.nonce, e.hasNon = *p.Interest.NonceV, true
		}
	} else {
		e.isData = true
		e.name = nstr(p.Data.NameV)
	}
	*f.sink = append(*f.sink, e)
	if f.held != nil {
		*f.held = append(*f.held, heldPkt{face: f.id, rawRef: out.Pkt.Raw, tokRef: out.PitToken, rawCopy: e.raw, tokCopy: e.token})
		if len(*f.held) > 24 {
			*f.held = (*f.held)[len(*f.held)-24:]
		}
	}
}

func nstr(n enc.Name) string {
	if len(n) == 0 {
		return "/"
	}
	return n.String()
}

func mkName(s string) enc.Name {
	if s == "/" || s == "" {
		return enc.Name{}
	}
	n, err := enc.NameFromStr(s)
	if err != nil {
		panic("harness: bad name " + s)
	}
	return n
}

func prefixesOf(n string) []string { // longest first, "/" last
	out := []string{}
	for n != "/" && n != "" {
		out = append(out, n)
		i := strings.LastIndex(n, "/")
		if i <= 0 {
			break
		}
		n = n[:i]
	}
	return append(out, "/")
}

func isPrefix(p, n string) bool {
	if p == "/" {
		return true
	}
	return n == p || strings.HasPrefix(n, p+"/")
}

func isLocalhost(n string) bool { return n == "/localhost" || strings.HasPrefix(n, "/localhost/") }

func stratFull(s string) string { return "/localhost/nfd/strategy/" + s + "/v=1" }

// ------------------------------------------------------------------ model

type faceM struct {
	scope  defn.Scope
	link   defn.LinkType
	exists bool
}

type inRec struct {
	superseded  map[uint32]time.Duration // nonces of this face's earlier Interests that a certainly accepted retransmission replaced -> the nonce's first appearance (as known when it was replaced): its recording is promised for one dead-nonce lifetime from then
	nonceUnsure bool                     // a later Interest from this face may or may not have replaced the nonce
	nonce       uint32
	tokens      [][]byte
	mustUntil   time.Duration // strictly before this instant the record is certainly held
	mayUntil    time.Duration
	clean       bool
}

type outRec struct {
	nonce   uint32
	sentAt  time.Duration
	expires time.Duration
}

type pitKey struct {
	name     string
	cbp, mbf bool
	hint     string
}

type pitEnt struct {
	retired     bool // its end-of-life effects (dead nonces) have been recorded
	key         pitKey
	in          map[uint64]*inRec
	out         map[uint64]*outRec
	token       []byte        // learned 4-byte entry token (nil until an upstream copy is seen)
	oldTokens   [][]byte      // tokens the entry had before it was possibly reaped and re-created
	deadline    time.Duration // upper bound on the latest lifetime recorded in it
	satisfiedAt time.Duration // -1: not satisfied since the last Interest
	uncertain   bool          // some Interest for it may or may not have been accepted
	viaCsHit    bool
}

func (e *pitEnt) goneBy() time.Duration {
	if e.satisfiedAt >= 0 {
		return e.satisfiedAt
	}
	return e.deadline
}

type csEnt struct {
	raw     []byte
	staleAt time.Duration
}

type deadRec struct {
	from, until time.Duration
}

type model struct {
	faces      map[uint64]*faceM
	fibNH      map[string]map[uint64]uint64
	strat      map[string]string
	pit        map[pitKey]*pitEnt
	cs         map[string]*csEnt
	lru        []string // least recent first
	csCap      int
	seenNonce  map[uint32]bool
	firstSeen  map[string]time.Duration // name|nonce -> first time an Interest carried it
	dead       map[string][]deadRec     // name|nonce -> windows in which it is surely in the dead nonce list
	regions    []string
	lifeMax    time.Duration
	lastEmitTo map[string][]byte // face|name -> token of the latest upstream copy (for "echo")
}

func (m *model) lpm(name string) map[uint64]uint64 {
	for _, p := range prefixesOf(name) {
		if nh := m.fibNH[p]; len(nh) > 0 {
			return nh
		}
	}
	return nil
}

func (m *model) strategyOf(name string) string {
	for _, p := range prefixesOf(name) {
		if s, ok := m.strat[p]; ok {
			return s
		}
	}
	return "best-route"
}

func (m *model) isProducer(n string) bool {
	for _, r := range m.regions {
		if isPrefix(r, n) {
			return true
		}
	}
	return false
}

func (m *model) hintKey(hint []string) string {
	if len(hint) == 0 {
		return ""
	}
	first := ""
	for _, h := range hint {
		if m.isProducer(h) {
			return ""
		}
		if first == "" {
			first = h
		}
	}
	return first
}

func (m *model) csTouch(name string) {
	for i, n := range m.lru {
		if n == name {
			m.lru = append(append(m.lru[:i:i], m.lru[i+1:]...), name)
			return
		}
	}
	m.lru = append(m.lru, name)
}

func (m *model) csInsert(name string, raw []byte, staleAt time.Duration) (evicted int) {
	if _, ok := m.cs[name]; ok {
		m.cs[name] = &csEnt{raw: raw, staleAt: staleAt}
		m.csTouch(name)
		return 0
	}
	m.cs[name] = &csEnt{raw: raw, staleAt: staleAt}
	m.lru = append(m.lru, name)
	for len(m.lru) > m.csCap {
		delete(m.cs, m.lru[0])
		m.lru = m.lru[1:]
		evicted++
	}
	return
}

// csAcceptable lists cached names that may answer the Interest.
func (m *model) csAcceptable(name string, cbp, mbf bool, now time.Duration) (exact bool, any []string) {
	for n, e := range m.cs {
		if mbf && !(now < e.staleAt) {
			continue
		}
		if n == name {
			exact = true
			any = append(any, n)
		} else if cbp && isPrefix(name, n) {
			any = append(any, n)
		}
	}
	return
}

// ------------------------------------------------------------------ run

type runner struct {
	ctx       *kit.Ctx
	sc        *kit.Scenario[Config, Op]
	m         *model
	th        *fw.Thread
	pitcs     *table.PitCsTree
	sink      []emission
	held      []heldPkt
	start     time.Time
	res       *kit.Result
	viol      []*kit.Violation
	step      int
	signer    ndn.Signer
	dataCache map[string][]byte
	tokIdx    map[string]int
	stats     struct{ satisfied, forwarded, dropped, expired, evicted, mbfStale, lhOffered int }
}

func (r *runner) now() time.Duration { return time.Since(r.start) }

func (r *runner) fail(class, key, format string, a ...any) {
	r.viol = append(r.viol, &kit.Violation{Class: class, Key: key, Step: r.step, Detail: fmt.Sprintf(format, a...)})
}

var configured bool

func configureOnce() {
	if configured {
		return
	}
	cfg := core.DefaultConfig()
	cfg.Core.LogLevel = "FATAL"
	cfg.Fw.Threads = 1
	core.LoadConfig(cfg, "")
	core.InitializeLogger("")
	configured = true
}

func (e Engine) Run(t *testing.T, ctx *kit.Ctx, sc *kit.Scenario[Config, Op]) *kit.Result {
	configureOnce()
	r := &runner{ctx: ctx, sc: sc, res: &kit.Result{}, dataCache: map[string][]byte{}, tokIdx: map[string]int{}}
	var pan any
	var site string
	synctest.Test(t, func(t *testing.T) {
		defer func() {
			if p := recover(); p != nil {
				pan, site = p, kit.PanicSite()
				// the bubble cannot be wound down cleanly after a panic in the middle of a step
				r.shutdown()
			}
		}()
		r.run()
	})
	if pan != nil {
		if strings.HasPrefix(site, "harness:") {
			panic(pan)
		}
		msg := fmt.Sprint(pan)
		if len(msg) > 300 {
			msg = msg[:300]
		}
		r.res.Violation = &kit.Violation{Class: sc.Property + "/panic", Key: site, Step: r.step, Detail: msg}
	}
	return r.res
}

func (r *runner) setup() {
	c := &r.sc.Config
	cfg := core.GetConfig()
	cfg.Tables.ContentStore.Capacity = uint16(c.CsCap)
	cfg.Tables.ContentStore.Admit = c.CsAdmit
	cfg.Tables.ContentStore.Serve = c.CsServe
	cfg.Tables.DeadNonceList.Lifetime = c.DnlMs
	cfg.Tables.NetworkRegion.Regions = c.Regions
	cfg.Tables.Fib.Hashtable.M = uint16(max(1, c.M))
	cfg.Fw.Threads = 1
	core.ShouldQuit = false
	table.VerifResetGlobals()
	table.Configure()
	fw.Configure()
	table.CreateFIBTable(c.Fib)
	for id := uint64(0); id < 1400; id++ { // every face id a scenario can have used (only the exported API, so that the table's representation can change)
		dispatch.RemoveFace(id)
	}

	m := &model{faces: map[uint64]*faceM{}, fibNH: map[string]map[uint64]uint64{}, strat: map[string]string{},
		pit: map[pitKey]*pitEnt{}, cs: map[string]*csEnt{}, csCap: c.CsCap, seenNonce: map[uint32]bool{},
		dead: map[string][]deadRec{}, firstSeen: map[string]time.Duration{}, regions: c.Regions, lastEmitTo: map[string][]byte{}}
	r.m = m
	for _, f := range c.Faces {
		sf := &simFace{id: f.ID, scope: defn.NonLocal, link: defn.PointToPoint, sink: &r.sink, held: &r.held}
		if f.Scope == "local" {
			sf.scope = defn.Local
		}
		if f.Link == "adhoc" {
			sf.link = defn.AdHoc
		}
		modelScope := sf.scope
		if f.Remote != "" {
			// The face's scope as the forwarder sees it comes from the real transport constructor (which fixes it
			// from the remote address and performs no I/O); the model's scope comes from the address by the rule
			// "loopback peers are local" (f.Scope, set by the generator).
			uri := defn.DecodeURIString(f.Remote)
			if uri == nil || uri.Canonize() != nil {
				panic("harness: bad remote URI " + f.Remote)
			}
			tr, err := face.MakeUnicastTCPTransport(uri, nil, face.PersistencyPersistent)
			if err != nil {
				panic("harness: MakeUnicastTCPTransport " + f.Remote + ": " + err.Error())
			}
			sf.scope = tr.Scope()
			r.ctx.Probe("face-scope-from-real-tcp-transport")
		}
		dispatch.AddFace(f.ID, sf)
		m.faces[f.ID] = &faceM{scope: modelScope, link: sf.link, exists: true}
	}
	for _, rt := range c.Routes {
		table.FibStrategyTable.InsertNextHopEnc(mkName(rt.Prefix), rt.Face, rt.Cost)
		if m.fibNH[rt.Prefix] == nil {
			m.fibNH[rt.Prefix] = map[uint64]uint64{}
		}
		m.fibNH[rt.Prefix][rt.Face] = rt.Cost
	}
	for _, s := range c.Strats {
		table.FibStrategyTable.SetStrategyEnc(mkName(s.Prefix), mkName(stratFull(s.Name)))
		m.strat[s.Prefix] = s.Name
	}
	fw.Threads = make([]*fw.Thread, c.Thread+1)
	dths := make([]dispatch.FWThread, c.Thread+1)
	for i := range fw.Threads {
		fw.Threads[i] = fw.NewThread(i)
		dths[i] = fw.Threads[i]
	}
	r.th = fw.Threads[c.Thread]
	dispatch.InitializeFWThreads(dths)
	if c.Thread != 0 {
		r.ctx.Probe("forwarding-thread-other-than-0")
	}
	r.pitcs = r.th.VerifPitCS().(*table.PitCsTree)
	r.signer = sec.NewSha256Signer()
	for _, th := range fw.Threads {
		go th.Run()
	}
	synctest.Wait()
}

func (r *runner) shutdown() {
	core.ShouldQuit = true
	for _, th := range fw.Threads {
		th.TellToQuit()
		<-th.HasQuit
	}
	// one reaper timer may still be pending per thread; let it fire and take its signal
	for i := 0; i < 3; i++ {
		time.Sleep(200 * time.Millisecond)
		synctest.Wait()
		for _, th := range fw.Threads {
			select {
			case <-th.VerifPitCS().(*table.PitCsTree).UpdateTimer():
			default:
			}
		}
	}
	core.ShouldQuit = false
}

func (r *runner) run() {
	r.start = time.Now()
	r.setup()
	defer func() {
		if p := recover(); p != nil {
			panic(p)
		}
	}()
	prop := r.sc.Property
	dg := kit.NewDigest()
	for i, op := range r.sc.Ops {
		r.step = i
		r.sink = r.sink[:0]
		r.viol = r.viol[:0]
		// what was handed to a face belongs to that face: it sits in the face's send queue until the frame is
		// encoded, and must read the same then
		for _, h := range r.held {
			if !bytes.Equal(h.tokRef, h.tokCopy) || !bytes.Equal(h.rawRef, h.rawCopy) {
				r.fail("C01/packet-changed-after-hand-over", "", "a packet handed to face %d earlier (token %x) reads differently now (token %x): the forwarder reused its bytes while the face still holds them", h.face, h.tokCopy, h.tokRef)
				break
			}
		}
		switch op.Op {
		case "interest":
			r.doInterest(&op)
		case "data":
			r.doData(&op)
		case "advance":
			time.Sleep(time.Duration(op.Ms) * time.Millisecond)
			synctest.Wait()
			r.noEmissions("advance")
		case "fibadd":
			table.FibStrategyTable.InsertNextHopEnc(mkName(op.Name), op.Face, op.Cost)
			if r.m.fibNH[op.Name] == nil {
				r.m.fibNH[op.Name] = map[uint64]uint64{}
			}
			r.m.fibNH[op.Name][op.Face] = op.Cost
		case "fibrem":
			table.FibStrategyTable.RemoveNextHopEnc(mkName(op.Name), op.Face)
			delete(r.m.fibNH[op.Name], op.Face)
		case "setstrat":
			table.FibStrategyTable.SetStrategyEnc(mkName(op.Name), mkName(stratFull(op.Strat)))
			r.m.strat[op.Name] = op.Strat
		case "unsetstrat":
			if op.Name != "/" {
				table.FibStrategyTable.UnSetStrategyEnc(mkName(op.Name))
				delete(r.m.strat, op.Name)
			}
		case "facerm":
			r.ctx.Fault("face-teardown")
			dispatch.RemoveFace(op.Face)
			if f := r.m.faces[op.Face]; f != nil {
				f.exists = false
			}
		case "cscap":
			table.SetCsCapacity(op.Cap)
			r.m.csCap = op.Cap
		case "drain":
			r.doDrain()
		}
		r.res.Steps++
		r.afterStep(&op)
		sd := r.stateDigest()
		r.ctx.State(sd)
		dg.U(sd)
		for _, v := range r.viol {
			if strings.HasPrefix(v.Class, prop+"/") {
				r.res.Violation = v
				break
			}
			// C09, second sentence: /localhost exchanges between local faces always work. The must-forward and
			// must-deliver rules of C02/C01 (which already take scope into account) are C09's when the packet is
			// under /localhost.
			if prop == "C09" && strings.HasPrefix(op.Name, "/localhost") &&
				(v.Class == "C02/first-interest-not-forwarded" || v.Class == "C01/pending-interest-not-satisfied" || v.Class == "C07/exact-cached-fresh-not-found") {
				r.res.Violation = &kit.Violation{Class: "C09/local-exchange-broken", Key: v.Class[4:], Step: v.Step, Detail: v.Detail}
				break
			}
		}
		if r.res.Violation != nil {
			break
		}
	}
	r.res.SimNanos = int64(r.now())
	r.res.Digest = dg.Sum()
	switch prop {
	case "C01":
		r.res.NonTrivial = r.stats.satisfied >= 1
	case "C02":
		r.res.NonTrivial = r.stats.forwarded >= 1 && r.stats.dropped >= 1
	case "C07":
		r.res.NonTrivial = r.stats.evicted >= 1 && r.stats.mbfStale >= 1
	case "C08":
		r.res.NonTrivial = r.stats.expired >= 1 && r.stats.satisfied >= 1
	case "C09":
		r.res.NonTrivial = r.stats.lhOffered >= 1
	}
	r.shutdown()
}

func (r *runner) noEmissions(what string) {
	if len(r.sink) > 0 {
		e := r.sink[0]
		r.fail("C01/emission-without-arrival", what, "packet %s emitted on face %d during %s", e.name, e.face, what)
		r.fail("C02/emission-without-arrival", what, "packet %s emitted on face %d during %s", e.name, e.face, what)
	}
}

func tokenBytes(hx string) []byte {
	if hx == "" {
		return nil
	}
	b, err := hex.DecodeString(hx)
	if err != nil {
		panic("harness: bad token hex")
	}
	return b
}

// nonceVal: the k-th nonce of a run; a few of them are the boundary values of the 4-byte field.
func nonceVal(k int) uint32 {
	switch k {
	case 2:
		return 0
	case 3:
		return 0xffffffff
	case 5:
		return 0x80000000
	case 7:
		return 1
	}
	return 0x5eed0000 + uint32(k)
}

func (r *runner) buildInterest(op *Op) *defn.Pkt {
	cfg := &ndn.InterestConfig{CanBePrefix: op.CBP, MustBeFresh: op.MBF}
	if op.Nonce > 0 {
		cfg.Nonce = utils.IdPtr(uint64(nonceVal(op.Nonce)))
	}
	if op.LifeMs > 0 {
		cfg.Lifetime = utils.IdPtr(time.Duration(op.LifeMs) * time.Millisecond)
	}
	if op.Hop != nil {
		cfg.HopLimit = utils.IdPtr(uint(*op.Hop))
	}
	for _, h := range op.Hint {
		cfg.ForwardingHint = append(cfg.ForwardingHint, mkName(h))
	}
	ei, err := spec.Spec{}.MakeInterest(mkName(op.Name), cfg, nil, nil)
	if err != nil {
		panic("harness: MakeInterest: " + err.Error())
	}
	raw := ei.Wire.Join()
	p, _, err := spec.ReadPacket(enc.NewBufferReader(raw))
	if err != nil || p.Interest == nil {
		panic("harness: generated Interest does not parse")
	}
	pkt := &defn.Pkt{Name: p.Interest.NameV, L3: p, Raw: raw, IncomingFaceID: utils.IdPtr(op.Face)}
	if tok := tokenBytes(op.Token); tok != nil {
		pkt.PitToken = tok
	}
	if op.NextHop != 0 {
		pkt.NextHopFaceID = utils.IdPtr(op.NextHop)
	}
	return pkt
}

func (r *runner) dataWire(op *Op) []byte {
	key := fmt.Sprintf("%s|%v|%d", op.Name, op.FreshMs, op.Var)
	if op.FreshMs != nil {
		key = fmt.Sprintf("%s|%d|%d", op.Name, *op.FreshMs, op.Var)
	}
	if w, ok := r.dataCache[key]; ok {
		return w
	}
	cfg := &ndn.DataConfig{ContentType: utils.IdPtr(ndn.ContentTypeBlob)}
	if op.FreshMs != nil {
		cfg.Freshness = utils.IdPtr(time.Duration(*op.FreshMs) * time.Millisecond)
	}
	content := []byte(fmt.Sprintf("content-of-%s-variant-%d", op.Name, op.Var))
	ed, err := spec.Spec{}.MakeData(mkName(op.Name), cfg, enc.Wire{content}, r.signer)
	if err != nil {
		panic("harness: MakeData: " + err.Error())
	}
	w := ed.Wire.Join()
	r.dataCache[key] = w
	return w
}

func (r *runner) tokCanon(tok []byte) int {
	k := string(tok)
	if i, ok := r.tokIdx[k]; ok {
		return i
	}
	r.tokIdx[k] = len(r.tokIdx) + 1
	return len(r.tokIdx)
}

// ------------------------------------------------------------------ Interest step

func (r *runner) doInterest(op *Op) {
	m := r.m
	now := r.now()
	pkt := r.buildInterest(op)
	origRaw := append([]byte(nil), pkt.Raw...)
	r.th.QueueInterest(pkt)
	synctest.Wait()

	life := 4 * time.Second
	if op.LifeMs > 0 {
		life = time.Duration(op.LifeMs) * time.Millisecond
	}
	var nonce uint32
	if op.Nonce > 0 {
		nonce = nonceVal(op.Nonce)
	}
	G := m.faces[op.Face]
	lh := isLocalhost(op.Name)
	var upstream, datas []emission
	for _, e := range r.sink {
		if e.isData {
			datas = append(datas, e)
		} else {
			upstream = append(upstream, e)
		}
	}
	// C09 on every emission
	r.checkScope(op.Name, "interest")
	if lh && G != nil && G.exists {
		for _, f := range m.faces {
			if f.exists && f.scope == defn.NonLocal {
				r.stats.lhOffered++
				break
			}
		}
	}

	certainDrop := ""
	switch {
	case G == nil || !G.exists:
		certainDrop = "unknown-face"
	case op.Hop != nil && *op.Hop == 0:
		certainDrop = "hop-limit-zero"
	case G.scope == defn.NonLocal && lh:
		certainDrop = "localhost-from-nonlocal"
	case op.Nonce == 0:
		certainDrop = "no-nonce"
	}
	if certainDrop != "" {
		r.stats.dropped++
		r.ctx.Probe("drop/" + certainDrop)
		if len(upstream) > 0 {
			r.fail("C02/forwarded-undeliverable-interest", certainDrop, "Interest %s (%s) was forwarded to face %d", op.Name, certainDrop, upstream[0].face)
		}
		if len(r.sink) > 0 && certainDrop == "localhost-from-nonlocal" {
			r.fail("C09/localhost-accepted-from-nonlocal", "interest", "Interest %s from non-local face %d caused an emission on face %d", op.Name, op.Face, r.sink[0].face)
		}
		if len(datas) > 0 {
			r.fail("C01/data-for-dropped-interest", certainDrop, "Data %s emitted for dropped Interest %s", datas[0].name, op.Name)
		}
		return
	}

	key := pitKey{op.Name, op.CBP, op.MBF, m.hintKey(op.Hint)}
	lookup := op.Name
	if key.hint != "" {
		lookup = key.hint
		r.ctx.Probe("hint-lookup")
	}
	// entries that have certainly expired by now have put their nonces into the dead nonce list, whichever
	// Interest comes next
	for _, e := range m.pit {
		if !e.retired && now > e.goneBy()+reapSlack {
			r.retire(e, now)
		}
	}
	ent := m.pit[key]
	entCertainlyGone := ent == nil || now > ent.goneBy()+reapSlack
	entCertainlyAlive := ent != nil && !ent.uncertain && ent.satisfiedAt < 0 && r.entCertainlyAlive(ent, now)
	freshNonce := !m.seenNonce[nonce]
	m.seenNonce[nonce] = true
	nk := fmt.Sprintf("%s|%d", op.Name, nonce)
	if _, ok := m.firstSeen[nk]; !ok {
		m.firstSeen[nk] = now
	}
	dnl := time.Duration(r.sc.Config.DnlMs) * time.Millisecond

	// "never" rules that hold for any Interest that reuses a nonce
	loopFrom := uint64(0)
	if ent != nil && ent.satisfiedAt < 0 {
		for f, rec := range ent.in {
			if f != op.Face && rec.clean && !rec.nonceUnsure && rec.nonce == nonce && now < rec.mustUntil {
				loopFrom = f
			}
		}
	}
	// A retransmission does not cancel the Interest it follows: the earlier nonce of another face's record is
	// still "the nonce of one still pending from another face" while that Interest's recording can still be
	// in the dead nonce list (one dead-nonce lifetime from the nonce's first appearance, weakest reading).
	if loopFrom == 0 && entCertainlyAlive {
		for f, rec := range ent.in {
			if fs, was := rec.superseded[nonce]; was && f != op.Face && rec.clean && now < fs+dnl-time.Millisecond {
				loopFrom = f
				r.ctx.Probe("loop/superseded-nonce")
			}
		}
	}
	surelyDead := false
	for _, w := range m.dead[nk] {
		// A record may have been made (by a rule the statement does not spell
		// out) as early as the nonce's first appearance and is only promised
		// for one lifetime from then: weakest reading.
		if now >= w.from && now < w.until-time.Millisecond && now < m.firstSeen[nk]+dnl-time.Millisecond {
			surelyDead = true
		}
	}
	if loopFrom != 0 && len(upstream) > 0 {
		r.fail("C02/forwarded-looping-interest", r.stratKey(op.Name), "Interest %s repeats the nonce pending from face %d but was forwarded to face %d", op.Name, loopFrom, upstream[0].face)
	}
	if surelyDead && len(upstream) > 0 {
		r.fail("C02/forwarded-dead-nonce", r.stratKey(op.Name), "Interest %s carries a nonce recorded as dead but was forwarded to face %d", op.Name, upstream[0].face)
	}
	if loopFrom != 0 {
		r.ctx.Probe("drop/loop")
		r.stats.dropped++
	}
	if surelyDead {
		r.ctx.Probe("drop/dead-nonce")
		r.stats.dropped++
	}
	if len(upstream) > 0 && !surelyDead && loopFrom == 0 && op.Nonce > 0 {
		// The Interest was forwarded, so it passed the dead-nonce check: no record of (name, nonce) existed at this
		// moment. Whatever record exists from now on was made now or later and is promised for one lifetime from
		// its making: the nonce's "first appearance" for the weakest-reading bound starts again here, and windows
		// derived from earlier recordings (all over, or the forwarding would have been reported) are forgotten.
		if m.firstSeen[nk] != now {
			r.ctx.Probe("dead-nonce-epoch-restarted-by-observed-forwarding")
		}
		m.firstSeen[nk] = now
		m.dead[nk] = nil
	}

	// cache answer
	hadRec := ent != nil && !entCertainlyGone && ent.in[op.Face] != nil
	exact, anyAcc := m.csAcceptable(op.Name, op.CBP, op.MBF, now)
	csAllowed := r.sc.Config.CsServe && len(anyAcc) > 0
	if G != nil && G.scope == defn.NonLocal && r.sc.Config.CsServe {
		nLh := 0
		for _, n := range anyAcc {
			if isLocalhost(n) {
				nLh++
			}
		}
		if nLh > 0 && nLh < len(anyAcc) && !r.res.Ambiguous {
			// which of several acceptable cached packets the lookup picks is map-iteration order inside the
			// forwarder; one choice is stopped by the scope rule, another is sent
			r.res.Ambiguous = true
			r.ctx.Logf("step %d: outcome depends on which cached packet answers; log ends here", r.step)
			if r.ctx != nil {
				r.ctx.Log = nil
			}
		}
	}
	csRequired := r.sc.Config.CsServe && exact && freshNonce && entCertainlyGone
	if op.MBF {
		if e := m.cs[op.Name]; e != nil && !(now < e.staleAt) {
			r.stats.mbfStale++
			r.ctx.Probe("cs/mustbefresh-on-stale")
		}
	}
	if len(datas) > 0 {
		r.ctx.Probe("cs/hit")
		d := datas[0]
		if len(datas) > 1 || d.face != op.Face {
			r.fail("C01/cache-answer-misdirected", "", "cache answer for Interest %s from face %d went to %d emission(s), first on face %d", op.Name, op.Face, len(datas), d.face)
		}
		ce := m.cs[d.name]
		okName := d.name == op.Name || (op.CBP && isPrefix(op.Name, d.name))
		switch {
		case !r.sc.Config.CsServe:
			r.fail("C07/served-while-serving-disabled", "", "Data %s served from cache although serving is off", d.name)
		case !okName:
			r.fail("C07/cache-answer-name-mismatch", "", "Interest %s (cbp=%v) answered with %s", op.Name, op.CBP, d.name)
			r.fail("C01/cache-answer-name-mismatch", "", "Interest %s (cbp=%v) answered with %s", op.Name, op.CBP, d.name)
		case ce == nil:
			r.fail("C07/cache-answer-not-cached", "", "Interest %s answered with %s which the model does not hold (evicted or never inserted)", op.Name, d.name)
		case op.MBF && !(now < ce.staleAt):
			r.fail("C07/stale-answer-to-mustbefresh", "", "MustBeFresh Interest %s answered with %s stale since %v (now %v)", op.Name, d.name, ce.staleAt, now)
		case !bytes.Equal(ce.raw, d.raw):
			r.fail("C07/cache-answer-bytes-differ", "", "cached %s returned bytes differ from the most recent insertion", d.name)
		}
		if !bytes.Equal(d.token, tokenBytes(op.Token)) && !hadRec {
			r.fail("C01/cache-answer-wrong-token", "", "cache answer carries token %x, Interest supplied %s", d.token, op.Token)
		}
		if len(upstream) > 0 {
			r.fail("C02/forwarded-despite-cache-answer", "", "Interest %s answered from cache and also forwarded to face %d", op.Name, upstream[0].face)
		}
		if !op.CBP && ce != nil {
			m.csTouch(d.name) // a hit by an exact-name lookup refreshes recency
		}
		// The in-record created for this Interest is consumed at once. If the
		// entry holds nothing else it is thereby satisfied and must be reaped.
		e := r.ensureEnt(key, now, entCertainlyGone, entCertainlyAlive)
		if now+life > e.deadline {
			e.deadline = now + life
		}
		delete(e.in, op.Face)
		if len(e.in) == 0 && len(e.out) == 0 {
			e.viaCsHit = true
			e.satisfiedAt = now
		}
		return
	}
	if csRequired && loopFrom == 0 && !surelyDead {
		r.fail("C07/exact-cached-fresh-not-found", "", "Interest %s (cbp=%v mbf=%v) not answered although %s is cached, unevicted and acceptable", op.Name, op.CBP, op.MBF, op.Name)
	}

	// forwarding constraints
	hopOut := -1
	if op.Hop != nil {
		hopOut = *op.Hop - 1
	}
	nh := m.lpm(lookup)
	strat := m.strategyOf(op.Name)
	P := map[uint64]bool{}
	R := map[uint64]bool{}
	for f := range nh {
		fm := m.faces[f]
		if fm == nil || !fm.exists {
			continue
		}
		if f == op.Face && G.link != defn.AdHoc {
			continue
		}
		P[f] = true
		otherDown := false
		if ent != nil && !entCertainlyGone {
			if rec := ent.in[f]; rec != nil && f != op.Face {
				otherDown = true
			}
		}
		if otherDown || (hopOut == 0 && fm.scope == defn.NonLocal) || (lh && fm.scope == defn.NonLocal) {
			continue
		}
		R[f] = true
	}
	if op.NextHop != 0 {
		r.ctx.Probe("nexthop-face-id")
		for _, e := range upstream {
			if e.face != op.NextHop {
				r.fail("C02/forwarded-off-chosen-nexthop", "", "Interest %s with consumer-chosen next hop %d emitted on face %d", op.Name, op.NextHop, e.face)
			}
			if e.face == op.Face && G.link != defn.AdHoc {
				// "never back out of the point-to-point face it arrived on" has no exception for a chosen next hop
				r.ctx.Probe("nexthop-face-id-names-arrival-face")
				r.fail("C02/sent-back-to-arrival-face", "nexthop-face-id", "Interest %s arrived on point-to-point face %d naming that face as its next hop and was sent back out of it", op.Name, op.Face)
			}
		}
		if len(upstream) > 1 {
			r.fail("C02/duplicate-forwarding", "nexthop-face-id", "Interest %s emitted %d times", op.Name, len(upstream))
		}
	} else {
		seen := map[uint64]int{}
		for _, e := range upstream {
			seen[e.face]++
			if !P[e.face] {
				why := "not a next hop of the longest-prefix FIB entry"
				if e.face == op.Face {
					why = "the point-to-point face it arrived on"
				}
				r.fail("C02/forwarded-off-fib", r.stratKey(op.Name), "Interest %s (lookup %s) emitted on face %d: %s; FIB next hops %v", op.Name, lookup, e.face, why, nh)
			}
			if seen[e.face] > 1 {
				r.fail("C02/duplicate-forwarding", r.stratKey(op.Name), "Interest %s emitted %d times on face %d", op.Name, seen[e.face], e.face)
			}
		}
		if strat == "best-route" && len(upstream) > 1 {
			r.fail("C02/best-route-multiple-nexthops", "", "best-route forwarded Interest %s to %d faces", op.Name, len(upstream))
		}
		// suppression of a different-nonce Interest inside the suppression interval
		if entCertainlyAlive {
			for f, o := range ent.out {
				if o.nonce != nonce && now-o.sentAt < suppressMin && now < o.expires && now > o.sentAt {
					r.ctx.Probe("suppressed")
					r.stats.dropped++
					if len(upstream) > 0 {
						r.fail("C02/retransmission-not-suppressed", r.stratKey(op.Name), "Interest %s with a new nonce arrived %v after the copy sent to face %d and was forwarded to face %d", op.Name, now-o.sentAt, f, upstream[0].face)
					}
					break
				}
			}
		}
		// obligation to forward the first Interest
		if freshNonce && entCertainlyGone && len(R) > 0 && !csAllowed && loopFrom == 0 && !surelyDead {
			minCost := ^uint64(0)
			for f := range R {
				if nh[f] < minCost {
					minCost = nh[f]
				}
			}
			if strat == "best-route" {
				if len(upstream) != 1 {
					r.fail("C02/first-interest-not-forwarded", "best-route", "first Interest %s from face %d has usable next hops %v but %d copies were sent", op.Name, op.Face, keys(R), len(upstream))
				} else if c, ok := nh[upstream[0].face]; ok && c > minCost {
					r.fail("C02/best-route-not-lowest-cost", "", "Interest %s sent to face %d cost %d although a usable next hop of cost %d exists", op.Name, upstream[0].face, c, minCost)
				}
			} else {
				for f := range R {
					if seen[f] == 0 {
						r.fail("C02/first-interest-not-forwarded", "multicast", "first Interest %s from face %d: usable next hop %d got no copy (sent to %d faces)", op.Name, op.Face, f, len(upstream))
						break
					}
				}
			}
		}
	}
	// every upstream copy: hop limit, bytes, token
	for _, e := range upstream {
		if e.name != op.Name {
			r.fail("C02/forwarded-interest-altered", "name", "Interest %s emitted as %s", op.Name, e.name)
		}
		if op.Hop != nil && e.hop != *op.Hop-1 {
			r.fail("C02/hop-limit-not-decremented", "", "Interest %s arrived with hop limit %d, left with %d", op.Name, *op.Hop, e.hop)
		}
		if op.Hop == nil && e.hop != -1 {
			r.fail("C02/forwarded-interest-altered", "hop-limit-added", "Interest %s gained a hop limit", op.Name)
		}
		if d := diffBytes(origRaw, e.raw); d > 1 || (d == 1 && op.Hop == nil) || len(origRaw) != len(e.raw) {
			r.fail("C02/forwarded-interest-altered", "bytes", "Interest %s: emitted bytes differ from received bytes in %d positions", op.Name, d)
		}
	}
	if len(upstream) > 0 {
		r.stats.forwarded++
		r.ctx.Probe("forwarded")
	}

	// ---- update the model
	accepted := freshNonce || len(upstream) > 0
	e := r.ensureEnt(key, now, entCertainlyGone, entCertainlyAlive)
	if !accepted {
		e.uncertain = true
	}
	if now+life > e.deadline {
		e.deadline = now + life
	}
	e.satisfiedAt = -1 // accepted, or possibly accepted: the deadline above is the sound upper bound
	if now+life > m.lifeMax {
		m.lifeMax = now + life
	}
	// A cached /localhost packet may have "answered" an Interest from a non-local face: the scope rule
	// stops the Data, yet the forwarder has consumed the Interest (as NFD does). Whether that happened
	// depends on which cached packet the lookup picked, so the record is only a "may" record.
	// (the cache is consulted unless this face's Interest is already pending - which the model only knows for sure
	// when its record is a clean one)
	certainRec := hadRec && ent.in[op.Face].clean && now < ent.in[op.Face].mustUntil
	if G.scope == defn.NonLocal && r.sc.Config.CsServe && !certainRec {
		for _, n := range anyAcc {
			if isLocalhost(n) {
				accepted = false
				e.uncertain = true
				r.ctx.Probe("cs/scope-blocked-answer")
				break
			}
		}
	}
	rec := e.in[op.Face]
	tok := tokenBytes(op.Token)
	if rec == nil {
		rec = &inRec{nonce: nonce, mustUntil: now + life, mayUntil: now + life, clean: accepted}
		if !accepted {
			rec.mustUntil = 0
		}
		rec.tokens = [][]byte{tok}
		e.in[op.Face] = rec
	} else {
		// the face's pending Interest is now this one, and the token it supplied is the one to come back with
		// the Data (the downstream may have forgotten the entry it had issued the earlier token for); if the
		// model cannot be sure that this Interest was accepted, either token is
		if accepted {
			rec.tokens = [][]byte{tok}
		} else {
			rec.tokens = append(rec.tokens, tok)
		}
		if accepted {
			if rec.clean && !rec.nonceUnsure && rec.nonce != nonce {
				if rec.superseded == nil {
					rec.superseded = map[uint32]time.Duration{}
				}
				rec.superseded[rec.nonce] = m.firstSeen[fmt.Sprintf("%s|%d", op.Name, rec.nonce)]
			}
			rec.nonce = nonce
			rec.nonceUnsure = false
			rec.mustUntil = now + life
			rec.clean = true
		} else {
			// possibly accepted: the record's latest nonce is then this one
			if rec.nonce != nonce {
				rec.nonceUnsure = true
			}
			if now+life < rec.mustUntil {
				rec.mustUntil = now + life
			}
		}
		if now+life > rec.mayUntil {
			rec.mayUntil = now + life
		}
	}
	{
		// (also for a consumer-chosen next hop: it is forwarded like any other, with this forwarder's token and an
		// out-record - until fix 44b9d1c it left with the downstream's own token and without a record)
		for _, em := range upstream {
			if len(em.token) != 6 || int(em.token[0])<<8|int(em.token[1]) != r.sc.Config.Thread {
				r.fail("C01/upstream-token-malformed", "", "upstream copy of %s carries token %x (want 6 bytes: thread id, entry token)", op.Name, em.token)
				continue
			}
			if e.token == nil {
				e.token = append([]byte(nil), em.token[2:]...)
				for k2, e2 := range m.pit {
					if e2 != e && e2.token != nil && bytes.Equal(e2.token, e.token) && now <= e2.goneBy() {
						r.fail("C01/pit-token-not-unique", "", "entries %v and %v share token %x", key, k2, e.token)
					}
				}
			} else if !bytes.Equal(e.token, em.token[2:]) {
				r.fail("C01/pit-token-changed", "", "entry %v token changed from %x to %x", key, e.token, em.token[2:])
			} else {
				e.token = append([]byte(nil), em.token[2:]...)
			}
			e.out[em.face] = &outRec{nonce: nonce, sentAt: now, expires: now + life}
			m.lastEmitTo[fmt.Sprintf("%d|%s", em.face, op.Name)] = append([]byte(nil), em.token...)
		}
	}
}

func (r *runner) stratKey(name string) string { return r.m.strategyOf(name) }

func keys(m map[uint64]bool) []uint64 {
	out := make([]uint64, 0, len(m))
	for k := range m {
		out = append(out, k)
	}
	sort.Slice(out, func(i, j int) bool { return out[i] < out[j] })
	return out
}

func diffBytes(a, b []byte) int {
	n := 0
	for i := 0; i < len(a) && i < len(b); i++ {
		if a[i] != b[i] {
			n++
		}
	}
	if len(a) != len(b) {
		n += 1000
	}
	return n
}

// entCertainlyAlive: some clean record guarantees the entry has not expired.
func (r *runner) entCertainlyAlive(e *pitEnt, now time.Duration) bool {
	for _, rec := range e.in {
		if rec.clean && now < rec.mustUntil {
			return true
		}
	}
	return false
}

func (r *runner) ensureEnt(key pitKey, now time.Duration, gone, alive bool) *pitEnt {
	e := r.m.pit[key]
	if e == nil || gone {
		if e != nil {
			r.retire(e, now)
		}
		e = &pitEnt{key: key, in: map[uint64]*inRec{}, out: map[uint64]*outRec{}, satisfiedAt: -1}
		r.m.pit[key] = e
		return e
	}
	if !alive {
		// The implementation's entry may or may not have been reaped and
		// re-created by now: what the model knew about it is demoted to "may".
		if e.token != nil {
			e.oldTokens = append(e.oldTokens, e.token)
			e.token = nil
		}
		for _, rec := range e.in {
			rec.clean, rec.mustUntil = false, 0
		}
		e.out = map[uint64]*outRec{}
		e.uncertain = false
		e.viaCsHit = false
	}
	return e
}

// retire records what a certainly expired entry put into the dead nonce list.
func (r *runner) retire(e *pitEnt, now time.Duration) {
	if e.retired {
		return
	}
	e.retired = true
	if e.satisfiedAt < 0 {
		r.stats.expired++
		r.ctx.Probe("pit/expired")
		// Also for an entry the model is unsure about (it may be a re-used, already satisfied entry, or hold an
		// Interest that was possibly not accepted): every out-record stands for a forwarding that was observed,
		// e.deadline is an upper bound of the real expiry, and the check bounds the window by the nonce's first
		// appearance plus one dead-nonce lifetime, so the window is promised whichever way the doubt resolves.
		for _, o := range e.out {
			k := fmt.Sprintf("%s|%d", e.key.name, o.nonce)
			r.m.dead[k] = append(r.m.dead[k], deadRec{from: e.deadline + reapSlack, until: e.deadline + time.Duration(r.sc.Config.DnlMs)*time.Millisecond})
		}
	}
}

// checkScope: no /localhost packet on a non-local face, ever (C09).
func (r *runner) checkScope(trigger string, kind string) {
	for _, e := range r.sink {
		f := r.m.faces[e.face]
		if f != nil && f.scope == defn.NonLocal && isLocalhost(e.name) {
			what := "Interest"
			if e.isData {
				what = "Data"
			}
			r.fail("C09/localhost-sent-to-nonlocal", strings.ToLower(what)+"/"+r.emitPath(kind, e), "%s %s transmitted on non-local face %d", what, e.name, e.face)
		}
	}
}

func (r *runner) emitPath(kind string, e emission) string {
	if kind == "interest" && e.isData {
		return "cache-answer"
	}
	if kind == "interest" {
		op := r.sc.Ops[r.step]
		if op.NextHop != 0 {
			return "nexthop-face-id"
		}
		return "strategy"
	}
	return "pit-match"
}

// ------------------------------------------------------------------ Data step

type cand struct {
	face uint64
	rec  *inRec
	must bool
	ent  *pitEnt
}

func (r *runner) doData(op *Op) {
	m := r.m
	now := r.now()
	raw := r.dataWire(op)
	rawCopy := append([]byte(nil), raw...)
	p, _, err := spec.ReadPacket(enc.NewBufferReader(rawCopy))
	if err != nil || p.Data == nil {
		panic("harness: generated Data does not parse")
	}
	pkt := &defn.Pkt{Name: p.Data.NameV, L3: p, Raw: rawCopy, IncomingFaceID: utils.IdPtr(op.Face)}
	var tok []byte
	switch op.TokKind {
	case "echo":
		tok = m.lastEmitTo[fmt.Sprintf("%d|%s", op.EchoFace, op.EchoName)]
		if tok != nil {
			r.ctx.Probe("data/token-echo")
		}
	case "foreign":
		tok = []byte{0, 0, 0xfe, 0xed, byte(r.step), 0x01}
		r.ctx.Probe("data/token-foreign")
	case "short":
		tok = []byte{0xaa, 0xbb, 0xcc, 0xdd}
	}
	if tok != nil {
		pkt.PitToken = append([]byte(nil), tok...)
	}
	r.th.QueueData(pkt)
	synctest.Wait()

	G := m.faces[op.Face]
	lh := isLocalhost(op.Name)
	r.checkScope(op.Name, "data")
	if lh && G != nil && G.exists {
		for _, f := range m.faces {
			if f.exists && f.scope == defn.NonLocal {
				r.stats.lhOffered++
				break
			}
		}
	}
	for _, e := range r.sink {
		if !e.isData {
			r.fail("C02/interest-emitted-on-data-arrival", "", "Interest %s emitted while processing Data %s", e.name, op.Name)
		}
	}
	if G == nil || !G.exists || (G.scope == defn.NonLocal && lh) {
		if len(r.sink) > 0 {
			r.fail("C01/data-from-invalid-source-delivered", "", "Data %s from face %d (unknown or scope-violating) was delivered to face %d", op.Name, op.Face, r.sink[0].face)
			if lh {
				r.fail("C09/localhost-accepted-from-nonlocal", "data", "Data %s from non-local face %d delivered to face %d", op.Name, op.Face, r.sink[0].face)
			}
		}
		return
	}
	if r.sc.Config.CsAdmit {
		stale := now
		if op.FreshMs != nil {
			stale = now + time.Duration(*op.FreshMs)*time.Millisecond
		}
		ev := m.csInsert(op.Name, raw, stale)
		r.stats.evicted += ev
		r.ctx.ProbeN("cs/evicted", ev)
	}

	// matched entries
	var matched []*pitEnt
	byToken := len(tok) == 6
	mayOnly := map[*pitEnt]bool{}
	if byToken {
		for _, e := range m.pit {
			if e.token != nil && bytes.Equal(e.token, tok[2:6]) {
				matched = append(matched, e)
				continue
			}
			for _, ot := range e.oldTokens {
				if bytes.Equal(ot, tok[2:6]) {
					matched = append(matched, e)
					mayOnly[e] = true
					break
				}
			}
		}
	} else {
		for k, e := range m.pit {
			if k.name == op.Name || (k.cbp && isPrefix(k.name, op.Name)) {
				matched = append(matched, e)
			}
		}
	}
	var cands []cand
	live := 0
	for _, e := range matched {
		if now > e.goneBy()+reapSlack {
			continue // certainly reaped
		}
		hasLive := false
		for f, rec := range e.in {
			fm := m.faces[f]
			if fm == nil || !fm.exists {
				continue
			}
			if lh && fm.scope == defn.NonLocal {
				continue
			}
			if now > rec.mayUntil {
				// every Interest this face sent for the entry has outlived its lifetime: the face holds no
				// pending Interest any more, although the entry lives on for the other faces' sake
				r.ctx.Probe("in-record-expired-before-its-entry")
				continue
			}
			must := rec.clean && now < rec.mustUntil && f != op.Face && e.satisfiedAt < 0 && !mayOnly[e]
			cands = append(cands, cand{face: f, rec: rec, must: must, ent: e})
			if must {
				hasLive = true
			}
		}
		if hasLive {
			live++
		}
	}
	if live > 1 {
		r.ctx.Probe("data/multi-match")
	}
	// Emissions of this Data must be matchable one-to-one to candidate records
	// (same face, a token that face supplied), and every MUST record must be
	// matchable to an emission: two bipartite matchings (by Mendelsohn-Dulmage a
	// single matching then satisfies both).
	var ems []emission
	for _, e := range r.sink {
		if !e.isData {
			continue
		}
		if !bytes.Equal(e.raw, raw) {
			r.fail("C01/data-bytes-altered", "", "Data %s emitted on face %d differs from the bytes received", op.Name, e.face)
		}
		ems = append(ems, e)
	}
	compat := func(ei, ci int) bool {
		if ems[ei].face != cands[ci].face {
			return false
		}
		for _, t := range cands[ci].rec.tokens {
			if bytes.Equal(t, ems[ei].token) {
				return true
			}
		}
		return false
	}
	emMatch := bipartite(len(ems), len(cands), compat) // emission -> cand
	used := make([]bool, len(cands))
	for ei, ci := range emMatch {
		if ci >= 0 {
			used[ci] = true
			continue
		}
		e := ems[ei]
		faceHas, faceFree := false, false
		for i, c := range cands {
			if c.face == e.face {
				faceHas = true
				taken := false
				for _, cj := range emMatch {
					if cj == i {
						taken = true
					}
				}
				if !taken {
					faceFree = true
				}
			}
		}
		switch {
		case faceFree:
			r.fail("C01/data-wrong-token", r.matchKey(byToken, live), "Data %s emitted on face %d with token %x, which that face did not supply for a matching pending Interest", op.Name, e.face, e.token)
		case faceHas:
			r.fail("C01/data-duplicate-copy", r.matchKey(byToken, live), "Data %s emitted on face %d more often than it has matching pending Interests", op.Name, e.face)
		default:
			r.fail("C01/data-to-face-without-pending-interest", r.matchKey(byToken, live), "Data %s (token kind %q) emitted on face %d, which holds no pending Interest it satisfies", op.Name, op.TokKind, e.face)
		}
	}
	var mustIdx []int
	for i, c := range cands {
		if c.must {
			mustIdx = append(mustIdx, i)
		}
	}
	mustMatch := bipartite(len(mustIdx), len(ems), func(mi, ei int) bool { return compat(ei, mustIdx[mi]) })
	for mi, ei := range mustMatch {
		if ei < 0 {
			c := cands[mustIdx[mi]]
			r.fail("C01/pending-interest-not-satisfied", r.matchKey(byToken, live), "Data %s arrived on face %d; face %d holds pending Interest %v (until %v, now %v) but got no copy with its token", op.Name, op.Face, c.face, c.ent.key, c.rec.mustUntil, now)
		}
	}
	sat := 0
	for i := range cands {
		if used[i] {
			sat++
		}
	}
	if sat > 0 {
		r.stats.satisfied++
		r.ctx.Probe("data/satisfied")
	} else if len(matched) == 0 {
		r.ctx.Probe("data/unsolicited")
	}
	// consume matched entries
	for _, e := range matched {
		if now > e.goneBy()+reapSlack {
			continue
		}
		certain := !e.uncertain && e.satisfiedAt < 0 && r.entCertainlyAlive(e, now) && !mayOnly[e]
		if mayOnly[e] {
			// consumed only if the old token is still the entry's token
			for _, rec := range e.in {
				rec.clean, rec.mustUntil = false, 0
			}
			e.out = map[uint64]*outRec{}
			continue
		}
		if certain && len(matched) == 1 {
			for _, o := range e.out {
				k := fmt.Sprintf("%s|%d", op.Name, o.nonce)
				m.dead[k] = append(m.dead[k], deadRec{from: now, until: now + time.Duration(r.sc.Config.DnlMs)*time.Millisecond})
			}
		}
		e.in = map[uint64]*inRec{}
		e.out = map[uint64]*outRec{}
		if e.satisfiedAt < 0 || certain {
			e.satisfiedAt = now
		}
		if certain {
			// its records are consumed and it is due for removal now: whatever is recorded in it later (if it
			// is re-used before the reaper runs) alone decides how long it lives
			e.deadline = now
		}
		e.uncertain = false
	}
}

func (r *runner) matchKey(byToken bool, live int) string {
	k := "by-name"
	if byToken {
		k = "by-token"
	}
	if live > 1 {
		return k + "/multi-match"
	}
	return k + "/single-match"
}

// ------------------------------------------------------------------ per-step invariants (C07 contents, C08 reclamation)

func (r *runner) afterStep(op *Op) {
	m := r.m
	now := r.now()
	st := r.pitcs.VerifStats()
	// C07: cache contents equal the LRU model
	if r.sc.Property == "C07" || r.sc.Property == "C08" {
		got := []string{}
		for _, n := range r.pitcs.VerifCsNames() {
			got = append(got, nstr(n))
		}
		sort.Strings(got)
		want := make([]string, 0, len(m.cs))
		for n := range m.cs {
			want = append(want, n)
		}
		sort.Strings(want)
		if strings.Join(got, " ") != strings.Join(want, " ") {
			r.fail("C07/cache-contents-differ-from-lru-model", "after-"+op.Op, "cached names %v, LRU model (capacity %d) holds %v", got, m.csCap, want)
		}
		if op.Op == "data" && st.CsEntriesTrue > m.csCap && len(want) <= m.csCap {
			r.fail("C07/capacity-exceeded", "", "%d packets cached, capacity %d", st.CsEntriesTrue, m.csCap)
		}
	}
	// C08: reported sizes are the true ones; entries are reaped on time
	if st.PitReported != st.PitEntriesTrue || st.TokenMap != st.PitEntriesTrue {
		r.fail("C08/pit-size-misreported", "", "PitSize()=%d true entries=%d token map=%d", st.PitReported, st.PitEntriesTrue, st.TokenMap)
	}
	if st.CsReported != st.CsEntriesTrue || st.CsMap != st.CsEntriesTrue || st.LruLen != st.CsEntriesTrue {
		r.fail("C08/cs-size-misreported", "", "CsSize()=%d true=%d csMap=%d lru=%d/%d", st.CsReported, st.CsEntriesTrue, st.CsMap, st.LruLen, st.LruLocations)
	}
	if st.ExpiryQueue > st.PitEntriesTrue {
		r.fail("C08/expiry-queue-leak", "", "expiry queue %d > PIT entries %d", st.ExpiryQueue, st.PitEntriesTrue)
	}
	for _, pe := range r.pitcs.VerifPitEntries() {
		k := pitKey{nstr(pe.Name), pe.CanBePrefix, pe.MustBeFresh, ""}
		if pe.Hint != nil {
			k.hint = nstr(pe.Hint)
		}
		me := m.pit[k]
		if me == nil {
			continue // entry of an Interest the model considers dropped before PIT insertion; bounded by the drain check
		}
		if now > me.goneBy()+reapSlack {
			why := "expired"
			if me.satisfiedAt >= 0 {
				why = "satisfied"
			}
			if me.viaCsHit {
				why = "cs-hit"
			}
			r.fail("C08/pit-entry-not-reaped", why, "PIT entry %v still present at %v; it was %s at %v (queued for expiry: %v)", k, now, why, me.goneBy(), pe.Queued)
		}
	}
}

func (r *runner) doDrain() {
	m := r.m
	// faults and traffic stop; run the clock past every lifetime, the reaper slack and the dead-nonce lifetime
	now := r.now()
	wait := reapSlack
	if m.lifeMax > now {
		wait += m.lifeMax - now
	}
	time.Sleep(wait)
	synctest.Wait()
	st := r.pitcs.VerifStats()
	if st.PitReported != 0 || st.PitEntriesTrue != 0 || st.TokenMap != 0 || st.ExpiryQueue != 0 {
		r.fail("C08/pit-not-empty-at-quiescence", r.leftoverKind(), "after all lifetimes: PitSize()=%d true entries=%d token map=%d expiry queue=%d", st.PitReported, st.PitEntriesTrue, st.TokenMap, st.ExpiryQueue)
	}
	if st.TreeNodes != st.NeededNodes {
		r.fail("C08/pitcs-tree-dead-branches", r.deadBranchKind(st), "PIT/CS name tree holds %d nodes, %d lie on a path to a live entry (cached packets: %d)", st.TreeNodes, st.NeededNodes, st.CsEntriesTrue)
	}
	dl, dq := r.th.VerifDNL().VerifLen()
	ticks := dl/100 + 3
	time.Sleep(time.Duration(r.sc.Config.DnlMs)*time.Millisecond + time.Duration(ticks)*100*time.Millisecond + slack)
	synctest.Wait()
	dl2, dq2 := r.th.VerifDNL().VerifLen()
	if dl2 != 0 || dq2 != 0 {
		r.fail("C08/dead-nonce-records-linger", "", "dead nonce list holds %d records (%d queued) after its lifetime; before the wait %d/%d", dl2, dq2, dl, dq)
	}
	r.noEmissions("drain")
	for _, e := range m.pit {
		if e.satisfiedAt < 0 {
			r.stats.expired++
		}
	}
	m.pit = map[pitKey]*pitEnt{}
}

func (r *runner) leftoverKind() string {
	kinds := map[string]bool{}
	for _, pe := range r.pitcs.VerifPitEntries() {
		k := pitKey{nstr(pe.Name), pe.CanBePrefix, pe.MustBeFresh, ""}
		if pe.Hint != nil {
			k.hint = nstr(pe.Hint)
		}
		switch me := r.m.pit[k]; {
		case me != nil && me.viaCsHit:
			kinds["cs-hit"] = true
		case !pe.Queued:
			kinds["never-queued"] = true
		default:
			kinds["queued"] = true
		}
	}
	ks := []string{}
	for k := range kinds {
		ks = append(ks, k)
	}
	sort.Strings(ks)
	return strings.Join(ks, "+")
}

func (r *runner) deadBranchKind(st table.VerifPitCsStats) string {
	if r.stats.evicted > 0 {
		return "after-eviction"
	}
	return "after-expiry"
}

func (r *runner) stateDigest() uint64 {
	d := kit.NewDigest()
	es := make([]string, 0, len(r.sink))
	cur := r.sc.Ops[r.step]
	for _, e := range r.sink {
		name := e.name
		if cur.Op == "interest" && cur.CBP && e.isData {
			// which of several acceptable cached packets answers a prefix
			// lookup is left open (map iteration order inside the CS)
			name = cur.Name + "/*"
		}
		es = append(es, fmt.Sprintf("%d|%v|%s|%d|%d", e.face, e.isData, name, r.tokCanonStable(e.token), e.hop))
	}
	d.SortedStrings(es)
	st := r.pitcs.VerifStats()
	d.I(st.PitEntriesTrue).I(st.CsEntriesTrue).I(st.TreeNodes)
	cs := []string{}
	for _, n := range r.pitcs.VerifCsNames() {
		cs = append(cs, nstr(n))
	}
	d.SortedStrings(cs)
	r.ctx.Logf("step %d emissions %v pit %d cs %d", r.step, sortedCopy(es), st.PitEntriesTrue, st.CsEntriesTrue)
	return d.Sum()
}

func sortedCopy(xs []string) []string {
	ys := append([]string(nil), xs...)
	sort.Strings(ys)
	return ys
}

// tokCanonStable maps a token to a canonical number: downstream tokens are
// scenario data (kept as a hash); forwarder-issued tokens (random) map to 1.
func (r *runner) tokCanonStable(tok []byte) uint64 {
	if len(tok) == 0 {
		return 0
	}
	if len(tok) == 6 && tok[0] == 0 && tok[1] == 0 {
		for _, e := range r.m.pit {
			if e.token != nil && bytes.Equal(e.token, tok[2:]) {
				return 1
			}
		}
	}
	return kit.HashString(string(tok))
}

// bipartite returns, for each left vertex, the matched right vertex or -1
// (maximum matching by augmenting paths).
func bipartite(nl, nr int, ok func(l, r int) bool) []int {
	matchR := make([]int, nr)
	for i := range matchR {
		matchR[i] = -1
	}
	var try func(l int, seen []bool) bool
	try = func(l int, seen []bool) bool {
		for rr := 0; rr < nr; rr++ {
			if seen[rr] || !ok(l, rr) {
				continue
			}
			seen[rr] = true
			if matchR[rr] < 0 || try(matchR[rr], seen) {
				matchR[rr] = l
				return true
			}
		}
		return false
	}
	for l := 0; l < nl; l++ {
		try(l, make([]bool, nr))
	}
	out := make([]int, nl)
	for i := range out {
		out[i] = -1
	}
	for rr, l := range matchR {
		if l >= 0 {
			out[l] = rr
		}
	}
	return out
}
