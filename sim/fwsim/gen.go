// Package fwsim runs one real forwarding thread (pipelines, strategies, PIT,
// CS, dead-nonce list, FIB) inside a synctest bubble, surrounded by simulated
// faces and scripted peers, and checks C01, C02, C07, C08 and C09 against a
// reference model after every quiescent step.
package fwsim

import (
	"fmt"
	"strings"

	"verifsim/kit"
)

type FaceCfg struct {
	ID    uint64 `json:"id"`
	Scope string `json:"scope"` // local | nonlocal
	Link  string `json:"link"`  // p2p | adhoc
	// Remote, when set, is the peer address of an outgoing unicast TCP face: the forwarder-side scope is then
	// whatever the real transport constructor derives from it, while Scope states what it has to be.
	Remote string `json:"remote,omitempty"`
}

type RouteCfg struct {
	Prefix string `json:"prefix"`
	Face   uint64 `json:"face"`
	Cost   uint64 `json:"cost"`
}

type StratCfg struct {
	Prefix string `json:"prefix"`
	Name   string `json:"name"` // best-route | multicast
}

type Config struct {
	Fib     string     `json:"fib"`
	M       int        `json:"m"`
	CsAdmit bool       `json:"cs_admit"`
	CsServe bool       `json:"cs_serve"`
	CsCap   int        `json:"cs_cap"`
	DnlMs   int        `json:"dnl_ms"`
	// Thread: the forwarding thread under test is thread number Thread of Thread+1 (the others are idle; packets are
	// handed to it directly). Its number is part of every PIT token it issues, and nothing else may depend on it
	Thread int `json:"thread,omitempty"`
	Faces   []FaceCfg  `json:"faces"`
	Routes  []RouteCfg `json:"routes"`
	Strats  []StratCfg `json:"strategies"`
	Regions []string   `json:"regions,omitempty"`
}

type Op struct {
	Op   string `json:"op"` // interest data advance fibadd fibrem setstrat unsetstrat facerm cscap drain
	Face uint64 `json:"face,omitempty"`
	Name string `json:"name,omitempty"`
	// interest
	CBP     bool     `json:"cbp,omitempty"`
	MBF     bool     `json:"mbf,omitempty"`
	Nonce   int      `json:"nonce,omitempty"`   // 0 = no Nonce field; k>0 = k-th nonce value of the run
	LifeMs  int      `json:"life_ms,omitempty"` // 0 = no InterestLifetime field (default 4 s)
	Hop     *int     `json:"hop,omitempty"`     // nil = no HopLimit field
	Hint    []string `json:"hint,omitempty"`
	Token   string   `json:"token,omitempty"` // hex of the downstream's PIT token ("" = none)
	NextHop uint64   `json:"nexthop,omitempty"`
	// data
	FreshMs  *int   `json:"fresh_ms,omitempty"` // nil = no FreshnessPeriod
	TokKind  string `json:"tok,omitempty"`      // "" none | echo | foreign | short
	EchoFace uint64 `json:"echo_face,omitempty"`
	EchoName string `json:"echo_name,omitempty"`
	Var      int    `json:"var,omitempty"` // content variant
	// advance
	Ms int `json:"ms,omitempty"`
	// fib / strategy / cs
	Cost  uint64 `json:"cost,omitempty"`
	Strat string `json:"strat,omitempty"`
	Cap   int    `json:"cap,omitempty"`
}

var comps = []string{"a", "b", "c"}

type gen struct {
	r       *kit.Rand
	prop    string
	faces   []FaceCfg
	names   []string // names used so far (Interests)
	sent    []Op     // interests issued so far
	nonces  int
	hasLH   bool
	regions []string
}

func (g *gen) name() string {
	r := g.r
	if len(g.names) > 0 && r.Chance(0.55) {
		n := kit.Pick(r, g.names)
		switch r.Intn(5) {
		case 0, 1:
			return n
		case 2:
			return n + "/" + kit.Pick(r, comps)
		case 3:
			if i := strings.LastIndex(n, "/"); i > 0 {
				return n[:i]
			}
			return n
		default:
			if i := strings.LastIndex(n, "/"); i >= 0 {
				return n[:i] + "/" + kit.Pick(r, comps)
			}
		}
	}
	d := r.Range(1, 4)
	var sb strings.Builder
	lhP := 0.04
	if g.prop == "C09" {
		lhP = 0.6
	}
	if r.Chance(lhP) {
		sb.WriteString("/localhost")
		d--
		g.hasLH = true
		if r.Chance(0.15) {
			sb.WriteString("/nfd")
		}
	} else if r.Chance(0.03) {
		sb.WriteString("/localhop")
		d--
	}
	for i := 0; i < d; i++ {
		sb.WriteString("/")
		sb.WriteString(kit.Pick(r, comps))
		if r.Chance(0.01) {
			// a long component: its length needs the 3-byte TLV length form (253 bytes and up)
			sb.WriteString(strings.Repeat("x", kit.Pick(r, []int{251, 252, 253, 254, 299, 1000})))
		}
	}
	if sb.Len() == 0 {
		return "/" + kit.Pick(r, comps)
	}
	return sb.String()
}

func (g *gen) prefix() string {
	r := g.r
	if r.Chance(0.08) {
		return "/"
	}
	n := g.name()
	// shorten sometimes so that it is a proper prefix of traffic names
	for r.Chance(0.4) {
		if i := strings.LastIndex(n, "/"); i > 0 {
			n = n[:i]
		} else {
			break
		}
	}
	return n
}

func (g *gen) face() uint64 { return kit.Pick(g.r, g.faces).ID }

func hexTok(b []byte) string {
	const hx = "0123456789abcdef"
	out := make([]byte, 0, 2*len(b))
	for _, c := range b {
		out = append(out, hx[c>>4], hx[c&15])
	}
	return string(out)
}

func (g *gen) interest() Op {
	r := g.r
	o := Op{Op: "interest", Face: g.face(), Name: g.name()}
	g.names = append(g.names, o.Name)
	// the decoder and the PIT accept an Interest with the empty name: with CanBePrefix it matches every Data
	rootP := 0.01
	if g.prop == "C09" {
		rootP = 0.08
	}
	if r.Chance(rootP) {
		o.Name = "/"
	}
	o.CBP = r.Chance(0.35) || (o.Name == "/" && r.Chance(0.8))
	o.MBF = r.Chance(0.2)
	// nonce: mostly fresh; sometimes reuse an earlier one (loop / retransmission); rarely absent
	switch r.Weighted([]int{75, 20, 3}) {
	case 0:
		g.nonces++
		o.Nonce = g.nonces
	case 1:
		if g.nonces > 0 {
			o.Nonce = r.Range(1, g.nonces)
		} else {
			g.nonces++
			o.Nonce = g.nonces
		}
	case 2:
		o.Nonce = 0
	}
	// replay a previous Interest (same name/flags), possibly from another face
	if len(g.sent) > 0 && r.Chance(0.3) {
		p := kit.Pick(r, g.sent)
		o.Name, o.CBP, o.MBF, o.Hint = p.Name, p.CBP, p.MBF, p.Hint
		if r.Chance(0.5) {
			o.Face = p.Face
		}
		if r.Chance(0.35) {
			o.Nonce = p.Nonce
		}
	}
	short := g.prop == "C08"
	switch r.Weighted([]int{4, 5, 2, 1}) {
	case 0:
		o.LifeMs = 0
	case 1:
		o.LifeMs = kit.Pick(r, []int{10, 50, 100, 150, 300, 600, 1000, 2000})
	case 2:
		o.LifeMs = r.Range(10, 3000)
	case 3:
		o.LifeMs = kit.Pick(r, []int{4000, 6000, 10000})
	}
	if short && o.LifeMs == 0 && r.Chance(0.7) {
		o.LifeMs = r.Range(10, 2000)
	}
	if r.Chance(0.3) {
		h := kit.Pick(r, []int{0, 1, 1, 2, 5, 255})
		o.Hop = &h
	}
	if r.Chance(0.08) || (len(g.regions) > 0 && r.Chance(0.3)) {
		n := r.Range(1, 2)
		for i := 0; i < n; i++ {
			h := g.prefix()
			if len(g.regions) > 0 && r.Chance(0.7) {
				// delegations around the configured producer regions: a region, a name below it, the name above it
				h = kit.Pick(r, g.regions)
				switch j := strings.LastIndex(h, "/"); {
				case r.Chance(0.3) && j > 0:
					h = h[:j]
				case r.Chance(0.5):
					h = strings.TrimSuffix(h, "/") + "/" + kit.Pick(r, []string{"a", "b", "c"})
				}
			}
			for h == "/" { // a delegation with the empty name is not a meaningful forwarding hint
				h = g.prefix()
			}
			o.Hint = append(o.Hint, h)
		}
	}
	if r.Chance(0.5) {
		o.Token = hexTok(r.Bytes(kit.Pick(r, []int{1, 4, 6, 8, 8, 32})))
	}
	nhp := 0.04
	if g.prop == "C09" {
		nhp = 0.12
	}
	if r.Chance(nhp) {
		o.NextHop = g.face()
		if r.Chance(0.2) {
			o.NextHop = 999
		}
	}
	g.sent = append(g.sent, o)
	return o
}

func (g *gen) data() Op {
	r := g.r
	o := Op{Op: "data", Face: g.face()}
	if len(g.sent) > 0 && r.Chance(0.85) {
		p := kit.Pick(r, g.sent)
		o.Name = p.Name
		if p.CBP && r.Chance(0.6) || r.Chance(0.1) {
			o.Name = p.Name + "/" + kit.Pick(r, comps)
			if r.Chance(0.3) {
				o.Name += "/" + kit.Pick(r, comps)
			}
		}
		switch r.Weighted([]int{45, 35, 12, 8}) {
		case 0:
			o.TokKind = ""
		case 1:
			o.TokKind, o.EchoFace, o.EchoName = "echo", o.Face, p.Name
			if r.Chance(0.15) {
				o.EchoFace = g.face()
			}
		case 2:
			o.TokKind = "foreign"
		case 3:
			o.TokKind = "short"
		}
	} else {
		o.Name = g.name()
	}
	if r.Chance(0.7) {
		f := kit.Pick(r, []int{0, 50, 200, 1000, 5000})
		o.FreshMs = &f
	}
	o.Var = r.Intn(3)
	return o
}

func (Engine) Generate(prop string, r *kit.Rand, tier string) *kit.Scenario[Config, Op] {
	g := &gen{r: r, prop: prop}
	sc := &kit.Scenario[Config, Op]{}
	c := &sc.Config
	c.Fib = kit.Pick(r, []string{"nametree", "hashtable"})
	c.M = r.Range(1, 5)
	c.CsAdmit = r.Chance(0.7)
	c.CsServe = r.Chance(0.75)
	if prop == "C07" {
		c.CsAdmit, c.CsServe = true, r.Chance(0.9)
	}
	if r.Chance(0.3) {
		c.Thread = r.Range(1, 7)
	}
	c.CsCap = kit.Pick(r, []int{0, 1, 2, 3, 4, 8, 1024})
	if prop == "C07" || prop == "C08" {
		c.CsCap = r.Range(0, 6)
	}
	c.DnlMs = kit.Pick(r, []int{500, 1000, 3000, 6000})
	nf := r.Range(2, 7)
	if r.Chance(0.15) {
		nf = 8
	}
	anyLocal, anyNon := false, false
	for i := 0; i < nf; i++ {
		f := FaceCfg{ID: uint64(10 + i), Scope: "nonlocal", Link: "p2p"}
		if r.Chance(0.45) {
			f.Scope = "local"
			anyLocal = true
		} else {
			anyNon = true
		}
		if r.Chance(0.12) {
			f.Link = "adhoc"
		}
		c.Faces = append(c.Faces, f)
	}
	if len(c.Faces) >= 2 && r.Chance(0.2) {
		// a router that has been up for a while: face ids far apart, some of them congruent modulo a power of two
		for k, nk := 0, r.Range(1, 2); k < nk; k++ {
			i := r.Range(1, len(c.Faces)-1)
			j := r.Intn(i)
			if c.Faces[i].ID < 256 {
				c.Faces[i].ID = c.Faces[j].ID%256 + uint64(kit.Pick(r, []int{256, 512, 768, 1024}))
			}
		}
		seen := map[uint64]bool{}
		for i := range c.Faces { // ids stay distinct
			for seen[c.Faces[i].ID] {
				c.Faces[i].ID += 3
			}
			seen[c.Faces[i].ID] = true
		}
	}
	if !anyLocal {
		c.Faces[0].Scope = "local"
	}
	if !anyNon {
		c.Faces[len(c.Faces)-1].Scope = "nonlocal"
	}
	for i := range c.Faces {
		f := &c.Faces[i]
		if prop == "C09" && f.Link == "p2p" && r.Chance(0.4) {
			if f.Scope == "local" {
				f.Remote = kit.Pick(r, []string{"tcp4://127.0.0.1:6363", "tcp4://127.8.9.10:7000", "tcp6://[::1]:6363"})
			} else {
				f.Remote = kit.Pick(r, []string{"tcp4://192.0.2.7:6363", "tcp4://10.0.0.1:6363", "tcp4://128.0.0.1:6363", "tcp4://126.255.255.255:1", "tcp6://[2001:db8::1]:6363", "tcp6://[fe80::1]:6363", "tcp6://[::2]:6363", "tcp4://0.0.0.0:6363"})
			}
		}
	}
	g.faces = c.Faces
	// seed some names so that routes line up with traffic
	for i := 0; i < 3; i++ {
		g.names = append(g.names, g.name())
	}
	nr := r.Range(1, 7)
	for i := 0; i < nr; i++ {
		rt := RouteCfg{Prefix: g.prefix(), Face: g.face(), Cost: uint64(r.Intn(4))}
		if r.Chance(0.03) {
			rt.Face = 999 // next hop towards a face that does not exist
		}
		c.Routes = append(c.Routes, rt)
	}
	if prop == "C09" {
		// adversarial routes towards non-local faces
		var non []uint64
		for _, f := range c.Faces {
			if f.Scope == "nonlocal" {
				non = append(non, f.ID)
			}
		}
		if r.Chance(0.6) {
			c.Routes = append(c.Routes, RouteCfg{Prefix: "/", Face: kit.Pick(r, non), Cost: 0})
		}
		if r.Chance(0.7) {
			c.Routes = append(c.Routes, RouteCfg{Prefix: "/localhost", Face: kit.Pick(r, non), Cost: uint64(r.Intn(2))})
		}
		if r.Chance(0.5) {
			c.Strats = append(c.Strats, StratCfg{Prefix: "/localhost", Name: "multicast"})
		}
	}
	if r.Chance(0.5) {
		c.Strats = append(c.Strats, StratCfg{Prefix: "/", Name: kit.Pick(r, []string{"best-route", "multicast"})})
	}
	ns := r.Intn(3)
	for i := 0; i < ns; i++ {
		c.Strats = append(c.Strats, StratCfg{Prefix: g.prefix(), Name: kit.Pick(r, []string{"best-route", "multicast"})})
	}
	if r.Chance(0.15) {
		c.Regions = append(c.Regions, g.prefix())
		// several regions, nested ones in either order (the narrower or the wider configured first)
		for r.Chance(0.45) && len(c.Regions) < 4 {
			base := kit.Pick(r, c.Regions)
			var nr string
			switch i := strings.LastIndex(base, "/"); {
			case r.Chance(0.4) && i > 0:
				nr = base[:i]
			case r.Chance(0.5):
				nr = strings.TrimSuffix(base, "/") + "/" + kit.Pick(r, []string{"a", "b", "c"})
			default:
				nr = g.prefix()
			}
			if r.Bool() {
				c.Regions = append(c.Regions, nr)
			} else {
				c.Regions = append([]string{nr}, c.Regions...)
			}
		}
	}
	g.regions = c.Regions

	nops := r.Range(4, 60)
	if r.Chance(0.5) {
		nops = r.Range(3, 16)
	}
	routes := append([]RouteCfg(nil), c.Routes...) // next hops the FIB holds at this point of the history (as generated)
	wInterest, wData, wAdv, wFib, wStrat, wFaceRm, wCap := 40, 28, 18, 6, 2, 2, 2
	if prop == "C07" {
		wInterest, wData, wCap = 35, 40, 6
	}
	var cached []Op // C07: Data ops issued as part of a fetch (probably cached)
	for i := 0; i < nops; i++ {
		if prop == "C08" && len(routes) > 0 && r.Chance(0.0015) {
			// a burst: a few hundred Interests for distinct names within a few milliseconds, all due to expire at
			// about the same time (a crawler, a sync storm) - the reaper has hundreds of entries to take in one tick
			rt := kit.Pick(r, routes)
			face := c.Faces[0].ID
			for _, f := range c.Faces {
				if f.ID != rt.Face {
					face = f.ID
				}
			}
			life := kit.Pick(r, []int{20, 50, 100, 300})
			for k, nk := 0, r.Range(120, 320); k < nk; k++ {
				in := g.interest()
				in.Hop, in.Hint, in.NextHop, in.CBP, in.MBF, in.Token = nil, nil, 0, false, false, ""
				in.Name = strings.TrimSuffix(rt.Prefix, "/") + fmt.Sprintf("/burst%d", k)
				in.Face, in.LifeMs = face, life
				g.nonces++
				in.Nonce = g.nonces
				sc.Ops = append(sc.Ops, in)
			}
			sc.Ops = append(sc.Ops, Op{Op: "advance", Ms: life + kit.Pick(r, []int{150, 250, 400})})
			continue
		}
		if prop == "C02" && len(routes) > 0 && len(c.Faces) >= 3 && r.Chance(0.04) {
			// the life cycle of one dead-nonce record: a nonce is recorded (a retransmission supersedes it, its entry
			// expires), leaves the list after one lifetime, is used again and forwarded, recorded again when that
			// Interest is satisfied - and then probed around the boundaries of the second recording
			rt := kit.Pick(r, routes)
			name := strings.TrimSuffix(rt.Prefix, "/") + "/" + kit.Pick(r, comps)
			var down []uint64
			for _, f := range c.Faces {
				if f.ID != rt.Face {
					down = append(down, f.ID)
				}
			}
			if len(down) >= 2 {
				life := kit.Pick(r, []int{100, 300, 600, 1500})
				g.nonces++
				n1 := g.nonces
				g.nonces++
				n2 := g.nonces
				a, b := down[0], down[1]
				mk := func(face uint64, nonce int) Op {
					in := g.interest()
					in.Hop, in.Hint, in.NextHop, in.CBP, in.MBF, in.Token = nil, nil, 0, false, true, ""
					in.Name, in.Face, in.Nonce, in.LifeMs = name, face, nonce, life
					return in
				}
				zero := 0
				sc.Ops = append(sc.Ops, mk(a, n1), Op{Op: "advance", Ms: r.Range(1, 60)}, mk(a, n2),
					Op{Op: "advance", Ms: life + kit.Pick(r, []int{120, 200, 400})},
					Op{Op: "advance", Ms: c.DnlMs + kit.Pick(r, []int{-200, 0, 150, 300})},
					mk(b, n1), Op{Op: "advance", Ms: r.Range(1, 30)},
					Op{Op: "data", Face: rt.Face, Name: name, FreshMs: &zero},
					Op{Op: "advance", Ms: kit.Pick(r, []int{1, 50, c.DnlMs / 2, c.DnlMs - life - 100, c.DnlMs - 150, c.DnlMs - 2, c.DnlMs + 150})})
				if sc.Ops[len(sc.Ops)-1].Ms < 0 {
					sc.Ops[len(sc.Ops)-1].Ms = 1
				}
				sc.Ops = append(sc.Ops, mk(kit.Pick(r, down), n1))
				continue
			}
		}
		if prop == "C07" && r.Chance(0.45) {
			// cache-centred traffic: fetch a name (Interest, then its Data from another face) so that the packet
			// is admitted, or look a probably-cached name up again around its freshness boundary
			if len(cached) == 0 || r.Chance(0.55) {
				in := g.interest()
				in.Hop, in.Hint, in.NextHop, in.MBF = nil, nil, 0, r.Chance(0.2)
				if in.Nonce == 0 {
					g.nonces++
					in.Nonce = g.nonces
				}
				if in.LifeMs != 0 && in.LifeMs < 600 {
					in.LifeMs = 0
				}
				d := g.data()
				d.Name, d.TokKind = in.Name, ""
				if in.CBP && in.Name != "/" && r.Chance(0.5) {
					d.Name = in.Name + "/" + kit.Pick(r, comps)
				}
				if in.Name == "/" {
					d.Name = g.name()
				}
				for d.Face == in.Face {
					d.Face = g.face()
				}
				f := kit.Pick(r, []int{0, 50, 200, 200, 1000, 1000, 5000})
				d.FreshMs = &f
				sc.Ops = append(sc.Ops, in, d)
				cached = append(cached, d)
			} else {
				d := kit.Pick(r, cached)
				if r.Chance(0.6) && d.FreshMs != nil {
					sc.Ops = append(sc.Ops, Op{Op: "advance", Ms: *d.FreshMs + kit.Pick(r, []int{-1, 0, 1, 1, 30})})
					if sc.Ops[len(sc.Ops)-1].Ms < 0 {
						sc.Ops[len(sc.Ops)-1].Ms = 0
					}
				}
				in := g.interest()
				in.Hop, in.Hint, in.NextHop = nil, nil, 0
				in.Name, in.CBP, in.MBF = d.Name, r.Chance(0.3), r.Chance(0.6)
				if r.Chance(0.3) {
					if j := strings.LastIndex(d.Name, "/"); j > 0 {
						in.Name, in.CBP = d.Name[:j], true
					}
				}
				sc.Ops = append(sc.Ops, in)
			}
			continue
		}
		switch r.Weighted([]int{wInterest, wData, wAdv, wFib, wStrat, wFaceRm, wCap}) {
		case 0:
			sc.Ops = append(sc.Ops, g.interest())
		case 1:
			sc.Ops = append(sc.Ops, g.data())
		case 2:
			ms := kit.Pick(r, []int{0, 1, 10, 50, 99, 100, 101, 200, 450, 499, 500, 501, 550, 1000, 2000, 4000, 7000})
			if r.Chance(0.3) {
				ms = r.Range(1, 3000)
			}
			sc.Ops = append(sc.Ops, Op{Op: "advance", Ms: ms})
		case 3:
			if r.Chance(0.6) {
				o := Op{Op: "fibadd", Name: g.prefix(), Face: g.face(), Cost: uint64(r.Intn(4))}
				sc.Ops = append(sc.Ops, o)
				routes = append(routes, RouteCfg{Prefix: o.Name, Face: o.Face})
			} else if len(routes) > 0 && r.Chance(0.7) {
				// an existing next hop goes away (often the entry's last one: the entry is pruned) - and the
				// neighbouring entries must still forward: traffic for another route follows at once
				k := r.Intn(len(routes))
				rt := routes[k]
				routes = append(routes[:k:k], routes[k+1:]...)
				sc.Ops = append(sc.Ops, Op{Op: "fibrem", Name: rt.Prefix, Face: rt.Face})
				if len(routes) > 0 && r.Chance(0.7) {
					other := kit.Pick(r, routes)
					in := g.interest()
					in.Hint, in.NextHop, in.Hop = nil, 0, nil
					in.Name = other.Prefix
					if in.Name == "/" || r.Chance(0.6) {
						in.Name = strings.TrimSuffix(other.Prefix, "/") + "/" + kit.Pick(r, comps)
					}
					g.nonces++
					in.Nonce = g.nonces
					for tries := 0; in.Face == other.Face && tries < 8; tries++ {
						in.Face = g.face()
					}
					sc.Ops = append(sc.Ops, in)
				}
			} else {
				sc.Ops = append(sc.Ops, Op{Op: "fibrem", Name: g.prefix(), Face: g.face()})
			}
		case 4:
			if r.Chance(0.7) {
				sc.Ops = append(sc.Ops, Op{Op: "setstrat", Name: g.prefix(), Strat: kit.Pick(r, []string{"best-route", "multicast"})})
			} else {
				p := g.prefix()
				if p != "/" {
					sc.Ops = append(sc.Ops, Op{Op: "unsetstrat", Name: p})
				}
			}
		case 5:
			sc.Ops = append(sc.Ops, Op{Op: "facerm", Face: g.face()})
		case 6:
			sc.Ops = append(sc.Ops, Op{Op: "cscap", Cap: r.Range(0, 5)})
		}
	}
	if prop == "C08" || r.Chance(0.2) {
		sc.Ops = append(sc.Ops, Op{Op: "drain"})
	}
	return sc
}

func (Engine) Simplify(sc *kit.Scenario[Config, Op]) []*kit.Scenario[Config, Op] {
	var out []*kit.Scenario[Config, Op]
	modOp := func(i int, f func(o *Op)) {
		ops := append([]Op(nil), sc.Ops...)
		f(&ops[i])
		out = append(out, sc.WithOps(ops))
	}
	modCfg := func(f func(c *Config)) {
		n := sc.WithOps(sc.Ops)
		c := sc.Config
		c.Faces = append([]FaceCfg(nil), c.Faces...)
		c.Routes = append([]RouteCfg(nil), c.Routes...)
		c.Strats = append([]StratCfg(nil), c.Strats...)
		c.Regions = append([]string(nil), c.Regions...)
		f(&c)
		n.Config = c
		out = append(out, n)
	}
	if sc.Config.Thread > 1 {
		modCfg(func(c *Config) { c.Thread = 1 })
	}
	if sc.Config.Thread > 0 {
		modCfg(func(c *Config) { c.Thread = 0 })
	}
	for i := range sc.Config.Routes {
		i := i
		modCfg(func(c *Config) { c.Routes = append(c.Routes[:i], c.Routes[i+1:]...) })
	}
	for i := range sc.Config.Strats {
		i := i
		modCfg(func(c *Config) { c.Strats = append(c.Strats[:i], c.Strats[i+1:]...) })
	}
	if len(sc.Config.Regions) > 0 {
		modCfg(func(c *Config) { c.Regions = nil })
	}
	if len(sc.Config.Regions) > 1 {
		for i := range sc.Config.Regions {
			i := i
			modCfg(func(c *Config) { c.Regions = append(append([]string(nil), c.Regions[:i]...), c.Regions[i+1:]...) })
		}
	}
	used := map[uint64]bool{}
	for _, o := range sc.Ops {
		used[o.Face], used[o.NextHop], used[o.EchoFace] = true, true, true
	}
	for _, rt := range sc.Config.Routes {
		used[rt.Face] = true
	}
	for i, f := range sc.Config.Faces {
		i := i
		if !used[f.ID] {
			modCfg(func(c *Config) { c.Faces = append(c.Faces[:i], c.Faces[i+1:]...) })
		}
	}
	if sc.Config.Fib != "nametree" {
		modCfg(func(c *Config) { c.Fib = "nametree" })
	}
	if sc.Config.CsCap > 4 {
		modCfg(func(c *Config) { c.CsCap = 4 })
	}
	for i, o := range sc.Ops {
		switch o.Op {
		case "interest":
			if o.Token != "" {
				modOp(i, func(o *Op) { o.Token = "" })
			}
			if o.Hop != nil {
				modOp(i, func(o *Op) { o.Hop = nil })
			}
			if len(o.Hint) > 0 {
				modOp(i, func(o *Op) { o.Hint = nil })
			}
			if o.MBF {
				modOp(i, func(o *Op) { o.MBF = false })
			}
			if o.CBP {
				modOp(i, func(o *Op) { o.CBP = false })
			}
			if o.NextHop != 0 {
				modOp(i, func(o *Op) { o.NextHop = 0 })
			}
			if o.LifeMs != 0 {
				modOp(i, func(o *Op) { o.LifeMs = 0 })
			}
		case "data":
			if o.TokKind != "" {
				modOp(i, func(o *Op) { o.TokKind, o.EchoFace, o.EchoName = "", 0, "" })
			}
			if o.FreshMs != nil {
				modOp(i, func(o *Op) { o.FreshMs = nil })
			}
			if o.Var != 0 {
				modOp(i, func(o *Op) { o.Var = 0 })
			}
		case "advance":
			if o.Ms > 1 {
				modOp(i, func(o *Op) { o.Ms = o.Ms / 2 })
				modOp(i, func(o *Op) { o.Ms = (o.Ms / 100) * 100 })
			}
		}
	}
	return out
}
