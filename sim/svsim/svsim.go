// Package svsim runs the repository's State Vector Sync (std/sync) instances on real application engines inside
// one synctest bubble, joined by a simulated multicast link that drops, duplicates, delays and corrupts Sync
// Interests. It serves C04 (the svs_2024 decoders and the sync receive path under hostile bytes).
package svsim

import (
	"fmt"
	"runtime"
	"sort"
	"strings"
	"testing"
	"testing/synctest"
	"time"

	enc "github.com/named-data/ndnd/std/encoding"
	basic "github.com/named-data/ndnd/std/engine/basic"
	"github.com/named-data/ndnd/std/log"
	"github.com/named-data/ndnd/std/ndn"
	sec "github.com/named-data/ndnd/std/security"
	ndnsync "github.com/named-data/ndnd/std/sync"

	"verifsim/facesim"
	"verifsim/kit"
)

type Config struct {
	N int `json:"n"`
	// Jitter seeds the sync timers' jitter (a pure function of this value and the simulated time of the draw)
	Jitter uint64 `json:"jitter"`
}

type Op struct {
	Op  string `json:"op"` // publish advance deliver drop dup corrupt settle
	R   int    `json:"r,omitempty"`
	K   int    `json:"k,omitempty"`
	Ms  int    `json:"ms,omitempty"`
	Mut string `json:"mut,omitempty"`
	At  int    `json:"at,omitempty"`
	Val uint64 `json:"val,omitempty"`
}

type Engine struct{}

func (Engine) Name() string { return "svsim" }

func (Engine) Generate(prop string, r *kit.Rand, tier string) *kit.Scenario[Config, Op] {
	sc := &kit.Scenario[Config, Op]{}
	sc.Config.N = r.Range(2, 4)
	sc.Config.Jitter = r.Uint64()
	n := r.Range(4, 60)
	for i := 0; i < n; i++ {
		switch r.Weighted([]int{14, 10, 30, 4, 4, 25}) {
		case 0:
			sc.Ops = append(sc.Ops, Op{Op: "publish", R: r.Intn(sc.Config.N)})
		case 1:
			sc.Ops = append(sc.Ops, Op{Op: "advance", Ms: kit.Pick(r, []int{1, 10, 100, 199, 200, 201, 1000, 5000, 27000, 33000})})
		case 2:
			sc.Ops = append(sc.Ops, Op{Op: "deliver", K: r.Intn(8)})
		case 3:
			sc.Ops = append(sc.Ops, Op{Op: "drop", K: r.Intn(8)})
		case 4:
			sc.Ops = append(sc.Ops, Op{Op: "dup", K: r.Intn(8)})
		case 5:
			o := Op{Op: "corrupt", K: r.Intn(8)}
			o.Mut, o.At, o.Val = facesim.GenMutFix(r, 64, 600)
			sc.Ops = append(sc.Ops, o, Op{Op: "deliver", K: o.K})
		}
	}
	sc.Ops = append(sc.Ops, Op{Op: "settle"})
	return sc
}

func (Engine) Simplify(sc *kit.Scenario[Config, Op]) []*kit.Scenario[Config, Op] {
	var out []*kit.Scenario[Config, Op]
	for i, o := range sc.Ops {
		if o.Op == "advance" && o.Ms > 1 {
			ops := append([]Op(nil), sc.Ops...)
			ops[i].Ms = o.Ms / 2
			out = append(out, sc.WithOps(ops))
		}
	}
	return out
}

type simFace struct {
	running bool
	onPkt   func(r enc.ParseReader) error
	out     [][]byte
}

func (f *simFace) Open() error     { f.running = true; return nil }
func (f *simFace) Close() error    { f.running = false; return nil }
func (f *simFace) IsRunning() bool { return f.running }
func (f *simFace) IsLocal() bool   { return true }
func (f *simFace) SetCallback(onPkt func(r enc.ParseReader) error, onError func(err error) error) {
	f.onPkt = onPkt
}
func (f *simFace) Send(pkt enc.Wire) error {
	f.out = append(f.out, append([]byte(nil), pkt.Join()...))
	return nil
}

type node struct {
	id   int
	name enc.Name
	face *simFace
	eng  *basic.Engine
	svs  *ndnsync.SvSync
	pub  uint64
}

type msg struct {
	src, dst  int
	seq       int
	frame     []byte
	corrupted bool
}

func (e Engine) Run(t *testing.T, ctx *kit.Ctx, sc *kit.Scenario[Config, Op]) *kit.Result {
	res := &kit.Result{}
	log.SetLevel(log.FatalLevel)
	// SvSync.Start spawns its main loop and its first send as two goroutines, and which runs first decides the
	// phase of the instance's timer for the whole run. On one P the order in which a goroutine's children start
	// is fixed, which makes the run repeatable.
	defer runtime.GOMAXPROCS(runtime.GOMAXPROCS(1))
	var pan any
	var site string
	synctest.Test(t, func(t *testing.T) {
		var nodes []*node
		func() {
			defer func() {
				if p := recover(); p != nil {
					pan, site = p, kit.PanicSite()
				}
			}()
			e.run(ctx, sc, res, &nodes)
		}()
		if pan != nil {
			// wind down what the unwound harness goroutine left running
			func() {
				defer func() { recover() }()
				for _, n := range nodes {
					n.svs.Stop()
					n.eng.Stop()
				}
				synctest.Wait()
				time.Sleep(3 * time.Second)
				synctest.Wait()
			}()
		}
	})
	if pan != nil {
		if strings.HasPrefix(site, "harness:") || strings.Contains(fmt.Sprint(pan), "deadlock") {
			panic(pan)
		}
		res.Violation = &kit.Violation{Class: sc.Property + "/panic", Key: site, Step: -1, Detail: fmt.Sprint(pan)}
	}
	return res
}

func (e Engine) run(ctx *kit.Ctx, sc *kit.Scenario[Config, Op], res *kit.Result, nodesOut *[]*node) {
	start := time.Now()
	ndnsync.VerifJitter = func(n int64) int64 {
		x := sc.Config.Jitter ^ uint64(time.Since(start))*0x9e3779b97f4a7c15
		x ^= x >> 31
		x *= 0xbf58476d1ce4e5b9
		x ^= x >> 29
		return int64(x % uint64(n))
	}
	defer func() { ndnsync.VerifJitter = nil }()
	step := 0
	fail := func(class, key, format string, a ...any) {
		if res.Violation == nil {
			res.Violation = &kit.Violation{Class: class, Key: key, Step: step, Detail: fmt.Sprintf(format, a...)}
		}
	}
	group, _ := enc.NameFromStr("/ndn/svs/group")
	signer := sec.NewSha256Signer()
	var nodes []*node
	for i := 0; i < sc.Config.N; i++ {
		n := &node{id: i, face: &simFace{}}
		n.name, _ = enc.NameFromStr(fmt.Sprintf("/ndn/n%d", i))
		n.eng = basic.NewEngine(n.face, basic.NewTimer(), signer, func(enc.Name, enc.Wire, ndn.Signature) bool { return true })
		if err := n.eng.Start(); err != nil {
			panic("harness: engine start: " + err.Error())
		}
		n.svs = ndnsync.NewSvSync(n.eng, group, func(ndnsync.SvSyncUpdate) {})
		if err := n.svs.Start(); err != nil {
			panic("harness: svs start: " + err.Error())
		}
		nodes = append(nodes, n)
		*nodesOut = nodes
	}
	synctest.Wait()
	var inflight []*msg
	mseq := 0
	collect := func() {
		for _, n := range nodes {
			out := n.face.out
			n.face.out = nil
			for _, f := range out {
				for _, d := range nodes {
					if d.id != n.id {
						mseq++
						inflight = append(inflight, &msg{src: n.id, dst: d.id, seq: mseq, frame: f})
					}
				}
			}
		}
	}
	pump := func(d time.Duration) {
		time.Sleep(d)
		synctest.Wait()
		collect()
	}
	// Whether an instance emits its start-up Sync Interest depends on which of the two goroutines Start() spawns
	// runs first (sendSyncInterest returns at once while main() has not yet marked the instance running): the
	// simulated link loses those first packets, so that every run starts from the same state.
	collect()
	inflight = nil
	corruptDelivered := 0
	deliver := func(m *msg) {
		d := nodes[m.dst]
		var ms0, ms1 runtime.MemStats
		if m.corrupted {
			corruptDelivered++
			runtime.ReadMemStats(&ms0)
		}
		d.face.onPkt(enc.NewBufferReader(append([]byte(nil), m.frame...)))
		synctest.Wait()
		if m.corrupted {
			runtime.ReadMemStats(&ms1)
			if grown := ms1.TotalAlloc - ms0.TotalAlloc; grown > 4<<20+64*uint64(len(m.frame)) {
				fail("C04/allocation-out-of-proportion", "svs", "a corrupted Sync Interest of %d bytes made the node allocate %d bytes", len(m.frame), grown)
			}
		}
		collect()
	}
	dg := kit.NewDigest()
	for i := range sc.Ops {
		o := &sc.Ops[i]
		step = i
		switch o.Op {
		case "publish":
			n := nodes[o.R%len(nodes)]
			n.pub = n.svs.IncrSeqNo(n.name)
			ctx.Probe("publish")
			pump(time.Millisecond)
		case "advance":
			pump(time.Duration(o.Ms) * time.Millisecond)
		case "deliver", "drop", "dup", "corrupt":
			if len(inflight) == 0 {
				break
			}
			k := o.K % len(inflight)
			m := inflight[k]
			switch o.Op {
			case "deliver":
				inflight = append(inflight[:k:k], inflight[k+1:]...)
				deliver(m)
			case "drop":
				inflight = append(inflight[:k:k], inflight[k+1:]...)
				ctx.Fault("drop-sync-interest")
			case "dup":
				ctx.Fault("duplicate-sync-interest")
				deliver(m)
			case "corrupt":
				m.frame = facesim.Mutate(m.frame, o.Mut, o.At, o.Val)
				m.corrupted = true
				ctx.Fault("corrupt-sync-interest-" + o.Mut)
				if !res.Ambiguous {
					// the periodic timers carry unseeded jitter and a corrupted state vector may name arbitrary
					// nodes: from here on only crash/allocation verdicts are compared
					res.Ambiguous = true
					if ctx != nil {
						ctx.Logf("step %d: sync Interest corrupted; log ends here", step)
						ctx.Log = nil
					}
				}
			}
		case "settle":
			// faults stop: everything in flight is delivered, two periodic rounds pass
			for round := 0; round < 3; round++ {
				for d := 0; d < 200 && len(inflight) > 0; d++ {
					m := inflight[0]
					inflight = inflight[1:]
					deliver(m)
				}
				pump(34 * time.Second)
			}
			conv := true
			for _, a := range nodes {
				for _, b := range nodes {
					if a.svs.GetSeqNo(b.name) < b.pub {
						conv = false
					}
				}
			}
			if conv {
				ctx.Probe("all-nodes-learned-every-sequence-number")
			} else {
				ctx.Probe("not-converged-at-settle")
			}
		}
		res.Steps++
		if res.Violation != nil {
			break
		}
		sd := kit.NewDigest().I(len(inflight))
		for _, a := range nodes {
			xs := []string{}
			for _, b := range nodes {
				xs = append(xs, fmt.Sprintf("%d", a.svs.GetSeqNo(b.name)))
			}
			sort.Strings(xs)
			sd.SortedStrings(xs)
		}
		if ctx != nil && ctx.Log != nil {
			desc := ""
			for _, a := range nodes {
				for _, b := range nodes {
					desc += fmt.Sprintf("%d ", a.svs.GetSeqNo(b.name))
				}
				desc += "| "
			}
			ctx.Logf("step %d %s t=%v inflight=%d sv: %s", i, o.Op, time.Since(start), len(inflight), desc)
		}
		ctx.State(sd.Sum())
		dg.U(sd.Sum())
	}
	res.SimNanos = int64(time.Since(start))
	res.Digest = dg.Sum()
	res.NonTrivial = corruptDelivered > 0
	// wind down: nothing may arrive after Stop
	inflight = nil
	for _, n := range nodes {
		n.svs.Stop()
		n.eng.Stop()
	}
	synctest.Wait()
	time.Sleep(3 * time.Second)
	synctest.Wait()
}
