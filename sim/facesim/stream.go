// Package facesim simulates what sits below the forwarder's link layer: a
// stream socket with arbitrary chunking, transient errors and EOF (C11), a
// datagram link that permutes, drops and duplicates frames between two real
// link services (C10), and a hostile link that corrupts frames (C04).
package facesim

import (
	"bytes"
	"errors"
	"fmt"
	defn "github.com/named-data/ndnd/fw/defn"
	"io"
	"net"
	"os"
	"runtime"
	"strconv"
	"strings"
	"sync"
	"testing"
	"testing/synctest"
	"time"

	"github.com/named-data/ndnd/fw/face"
	enc "github.com/named-data/ndnd/std/encoding"
	stdface "github.com/named-data/ndnd/std/engine/face"

	"verifsim/kit"
)

// ---------------------------------------------------------------- C11: stream framing

type StreamConfig struct {
	Target      string `json:"target"`             // fw (readTlvStream) | std (StreamFace.Run over net.Pipe) | tcp, unix (the real transport's receive loop over a loopback socket; Reads are the sizes of the writes, the kernel decides the reads)
	PauseAt     []int  `json:"pause_at,omitempty"` // std: write indices before which the sender stays silent for PauseMs (a slow sender; simulated time)
	PauseMs     int    `json:"pause_ms,omitempty"`
	FaceMtu     int    `json:"face_mtu,omitempty"`      // tcp, unix: MTU configured on the face (a send-side limit; must not affect what is received)
	Reads       []int  `json:"reads"`                   // read/chunk sizes, used cyclically
	TempErr     []int  `json:"temp_err,omitempty"`      // read indices at which a transient error is injected
	ErrWithData bool   `json:"err_with_data,omitempty"` // transient error returned together with n>0
	EofAt       int    `json:"eof_at"`                  // -1: EOF after the last byte; else stream cut at this byte offset
	EofWithData bool   `json:"eof_with_data,omitempty"` // fw: the last bytes of the stream come together with io.EOF in one Read result (io.Reader allows it)
	// dgram, udp: the blocks travel in datagrams - consecutive whole blocks, as many as fit the budget Reads[k] (at
	// least one, never more than the maximum packet size) - and every datagram is framed on its own. Hostile lists
	// datagrams that no decoder accepts, slipped in between (C04: they must change nothing but counters)
	Hostile []HostileDgram `json:"hostile,omitempty"`
	// Tail (std, C04): after the blocks the peer sends a header whose length no packet can have
	// (len24: 16 MiB, len31: 2 GiB - 1, len36: 64 GiB, len63: 2^63) and then goes silent
	Tail string `json:"tail,omitempty"`
}

var hostileTails = map[string][]byte{
	"len24": {6, 0xfe, 0x01, 0, 0, 0},
	"len31": {6, 0xfe, 0x7f, 0xff, 0xff, 0xff},
	"len36": {6, 0xff, 0, 0, 0, 0x10, 0, 0, 0, 0},
	"len63": {6, 0xff, 0x80, 0, 0, 0, 0, 0, 0, 0},
}

// HostileDgram is one undecodable datagram, put on the wire before good datagram number At (or after the last one).
type HostileDgram struct {
	At   int    `json:"at"`
	Kind string `json:"kind"` // trunc (a block cut short) | hugelen (a length beyond the maximum packet size) | hdr (an unfinished header) | empty
	Arg  int    `json:"arg"`
}

var hostileKinds = []string{"trunc", "trunc", "hugelen", "hugelen", "hdr", "empty"}

func hostileBytes(h HostileDgram) []byte {
	switch h.Kind {
	case "trunc":
		l := 2 + h.Arg%2000
		b := blockBytes(900000+h.Arg, 6, l)
		return b[:1+(h.Arg*7)%(len(b)-1)]
	case "hugelen":
		b := []byte{6}
		switch h.Arg % 5 {
		case 0:
			b = append(b, 0xfd, 0x22, 0x61) // 8801
		case 1:
			b = append(b, 0xfd, 0xff, 0xff)
		case 2:
			b = append(b, 0xfe, 0x7f, 0xff, 0xff, 0xff)
		case 3:
			b = append(b, 0xff, 0x80, 0, 0, 0, 0, 0, 0, 0)
		case 4:
			b = append(b, 0xff, 0xff, 0xff, 0xff, 0xff, 0xff, 0xff, 0xff, 0xff)
		}
		for j := 0; j < h.Arg%300; j++ {
			b = append(b, byte(j))
		}
		return b
	case "hdr":
		return [][]byte{{0xfd}, {0xfe, 0, 1}, {6, 0xfd}, {6, 0xfd, 1}, {0xff, 1, 2, 3}, {6, 0xfe, 0, 0}}[h.Arg%6]
	}
	return []byte{}
}

// datagrams groups the blocks into datagrams and slips the hostile ones in; want = the blocks of the good ones.
func datagrams(blocks [][]byte, budgets []int, hostile []HostileDgram) (out [][]byte, isHostile []bool) {
	var good [][]byte
	for i, k := 0, 0; i < len(blocks); k++ {
		budget := budgets[k%len(budgets)]
		if budget > maxPkt {
			budget = maxPkt
		}
		d := append([]byte(nil), blocks[i]...)
		i++
		for i < len(blocks) && len(d)+len(blocks[i]) <= budget {
			d = append(d, blocks[i]...)
			i++
		}
		good = append(good, d)
	}
	for g := 0; g <= len(good); g++ {
		for _, h := range hostile {
			if h.At == g || (g == len(good) && h.At > g) {
				out = append(out, hostileBytes(h))
				isHostile = append(isHostile, true)
			}
		}
		if g < len(good) {
			out = append(out, good[g])
			isHostile = append(isHostile, false)
		}
	}
	return
}

// dgramReader is a datagram socket: every Read returns one datagram (what does not fit the buffer is discarded).
type dgramReader struct {
	dgrams   [][]byte
	hostile  []bool
	i        int
	ri       int
	tempErr  map[int]bool
	ctx      *kit.Ctx
	calls    int
	maxCalls int
	spun     bool
}

func (c *dgramReader) Read(p []byte) (int, error) {
	c.calls++
	if c.calls > c.maxCalls {
		c.spun = true
		return 0, errSpin
	}
	idx := c.ri
	c.ri++
	if c.tempErr[idx] {
		c.ctx.Fault("transient-read-error")
		return 0, errTransient
	}
	if c.i >= len(c.dgrams) {
		return 0, io.EOF
	}
	if len(p) == 0 {
		return 0, nil
	}
	d := c.dgrams[c.i]
	if c.hostile[c.i] {
		c.ctx.Fault("undecodable-datagram")
	}
	c.i++
	return copy(p, d), nil
}

type Block struct {
	T int `json:"t"`           // TLV type number
	L int `json:"l"`           // value length
	N int `json:"n,omitempty"` // repeat count (N identical-shape blocks with distinct contents); 0 = 1
	// LF: the length is written in a longer form than it needs (3: fd xx xx, 5: fe xx xx xx xx). The packet format
	// asks for the shortest form, every decoder of the repository accepts the others; the framing may refuse such a
	// stream with an error - it must not hand on anything but the blocks as they were sent
	LF int `json:"lf,omitempty"`
}

type StreamEngine struct{}

func (StreamEngine) Name() string { return "streamsim" }

const maxPkt = 8800

var errTransient = errors.New("simulated transient read error")
var errSpin = errors.New("simulated reader: read budget exhausted")

func tlnumLen(v int) int {
	switch {
	case v <= 0xfc:
		return 1
	case v <= 0xffff:
		return 3
	default:
		return 5
	}
}

func putTLNum(b []byte, v int) []byte {
	switch {
	case v <= 0xfc:
		return append(b, byte(v))
	case v <= 0xffff:
		return append(b, 0xfd, byte(v>>8), byte(v))
	default:
		return append(b, 0xfe, byte(v>>24), byte(v>>16), byte(v>>8), byte(v))
	}
}

func putTLNumForm(b []byte, v int, form int) []byte {
	switch {
	case form == 3 && v <= 0xffff:
		return append(b, 0xfd, byte(v>>8), byte(v))
	case form == 5:
		return append(b, 0xfe, byte(v>>24), byte(v>>16), byte(v>>8), byte(v))
	}
	return putTLNum(b, v)
}

func blockBytes(idx int, t, l int) []byte { return blockBytesForm(idx, t, l, 0) }

func blockBytesForm(idx int, t, l int, lf int) []byte {
	b := make([]byte, 0, 10+l)
	b = putTLNum(b, t)
	b = putTLNumForm(b, l, lf)
	for j := 0; j < l; j++ {
		b = append(b, byte(idx*31+j*7+(j>>8)))
	}
	return b
}

// udpRxQueue returns the number of bytes queued for reading on the local UDP socket bound to port (Linux procfs).
func udpRxQueue(port int) (int, bool) {
	b, err := os.ReadFile("/proc/net/udp")
	if err != nil {
		return 0, false
	}
	want := fmt.Sprintf(":%04X", port)
	for _, line := range strings.Split(string(b), "\n")[1:] {
		f := strings.Fields(line)
		if len(f) < 5 || !strings.HasSuffix(f[1], want) || !strings.HasPrefix(f[1], "0100007F") {
			continue
		}
		q := strings.Split(f[4], ":")
		if len(q) != 2 {
			return 0, false
		}
		n, err := strconv.ParseInt(q[1], 16, 64)
		return int(n), err == nil
	}
	return 0, true // the socket is gone: nothing is queued
}

func (StreamEngine) Generate(prop string, r *kit.Rand, tier string) *kit.Scenario[StreamConfig, Block] {
	sc := &kit.Scenario[StreamConfig, Block]{}
	c := &sc.Config
	c.Target = "fw"
	if r.Chance(0.3) {
		c.Target = "std"
	} else if r.Chance(0.05) {
		c.Target = kit.Pick(r, []string{"tcp", "unix", "udp", "tcpout"})
		if r.Chance(0.5) {
			c.FaceMtu = kit.Pick(r, []int{128, 576, 1200, 1500, 4000})
		}
	} else if r.Chance(0.06) {
		c.Target = "dgram"
	}
	if prop == "C04" {
		// C04's part: datagram faces under undecodable datagrams
		c.Target = "dgram"
		if r.Chance(0.04) {
			c.Target = "udp"
		}
		if r.Chance(0.12) {
			// ... and the application-side stream framing under a header that announces an impossible length
			c.Target = "std"
			c.Tail = kit.Pick(r, []string{"len24", "len31", "len36", "len63"})
		}
	}
	if t := os.Getenv("VERIF_STREAM_TARGET"); t != "" {
		c.Target = t // experiments only
	}
	c.EofAt = -1
	// total size: mostly beyond one buffer wrap (32 x 8800 = 281600 bytes)
	total := kit.Pick(r, []int{2000, 60000, 300000, 300000, 600000, 1200000})
	if tier == "thorough" && r.Chance(0.2) {
		total = 4000000
	}
	if c.Target != "fw" && total > 300000 {
		total = 300000
	}
	if c.Tail != "" {
		total = kit.Pick(r, []int{0, 2000, 60000})
	}
	if c.Target == "std" && r.Chance(0.4) {
		// a slow sender: silences in the middle of the stream, wherever the writes happen to end
		c.PauseMs = kit.Pick(r, []int{100, 900, 1100, 2500, 10000, 70000})
		for i, n := 0, r.Range(1, 4); i < n; i++ {
			c.PauseAt = append(c.PauseAt, r.Intn(40))
		}
	}
	types := []int{5, 6, 100, 0x64, 253, 800, 0x10000, 0x12345}
	sum := 0
	longLF := (c.Target == "fw" || c.Target == "std") && r.Chance(0.05)
	for sum < total {
		var l int
		switch r.Weighted([]int{4, 3, 2, 2, 2}) {
		case 0:
			l = r.Range(0, 60)
		case 1:
			l = r.Range(200, 300) // around the 252/253 length-form boundary
		case 2:
			l = r.Range(1000, 4000)
		case 3:
			l = r.Range(8000, 8790)
		case 4:
			l = kit.Pick(r, []int{0, 1, 251, 252, 253, 254, 255, 256, 8788, 8790, 8792, 8794})
		}
		t := kit.Pick(r, types)
		for tlnumLen(t)+tlnumLen(l)+l > maxPkt {
			l--
		}
		if tlnumLen(t)+tlnumLen(l)+l < 2 {
			l = 0
		}
		n := 1
		if r.Chance(0.3) {
			n = r.Range(2, 40)
		}
		blk := Block{T: t, L: l, N: n}
		if longLF && r.Chance(0.3) {
			blk.LF = kit.Pick(r, []int{3, 3, 5})
			if blk.LF == 3 && l > 0xfc {
				blk.LF = 5
			}
			for tlnumLen(t)+blk.LF+blk.L > maxPkt {
				blk.L--
			}
		}
		sc.Ops = append(sc.Ops, blk)
		sum += n * (len(blockBytesForm(0, blk.T, blk.L, blk.LF)))
	}
	// chunk schedule
	switch r.Weighted([]int{3, 3, 3, 2, 2, 2}) {
	case 0:
		c.Reads = []int{1}
		if sum > 300000 { // one-byte reads over a shorter prefix only
			c.Reads = []int{1, 1, 1, 1, 1, 1, 1, 7000}
		}
	case 1:
		c.Reads = []int{1 << 20} // as much as the buffer takes
	case 2:
		n := r.Range(2, 12)
		for i := 0; i < n; i++ {
			c.Reads = append(c.Reads, kit.Pick(r, []int{1, 2, 3, 5, 8, 100, 1000, 1448, 8799, 8800, 8801, 65536}))
		}
	case 3:
		// reads that end inside T or L fields: sizes that walk across headers
		c.Reads = []int{r.Range(1, 4), r.Range(1, 3), r.Range(1, 9000)}
	case 4:
		c.Reads = []int{r.Range(1, 20000)}
	case 5:
		n := r.Range(20, 200)
		for i := 0; i < n; i++ {
			c.Reads = append(c.Reads, r.Range(1, 3000))
		}
	}
	if r.Chance(0.3) {
		n := r.Range(1, 6)
		for i := 0; i < n; i++ {
			c.TempErr = append(c.TempErr, r.Range(0, 400))
		}
		c.ErrWithData = r.Bool()
	}
	if r.Chance(0.3) || (c.Target == "tcpout" && r.Chance(0.8)) {
		c.EofAt = r.Range(0, sum)
	}
	if c.Tail != "" {
		c.EofAt = -1 // the tail follows the last complete block
	}
	if c.Target == "fw" && c.EofAt < 0 && r.Chance(0.15) {
		c.EofWithData = true
	}
	if c.Target == "dgram" || c.Target == "udp" {
		// Reads are the datagrams' size budgets; nothing is cut (a datagram arrives whole or not at all)
		c.EofAt = -1
		c.Reads = nil
		for i, n := 0, r.Range(1, 8); i < n; i++ {
			c.Reads = append(c.Reads, kit.Pick(r, []int{1, 1, 300, 1200, 1500, 4000, 8800, 8800}))
		}
		if prop == "C04" {
			nb := 0
			for _, b := range sc.Ops {
				nb += max(b.N, 1)
			}
			for i, n := 0, r.Range(1, 6); i < n; i++ {
				sc.Config.Hostile = append(sc.Config.Hostile, HostileDgram{At: r.Intn(nb + 1), Kind: kit.Pick(r, hostileKinds), Arg: r.Intn(100000)})
			}
		}
	}
	return sc
}

func (StreamEngine) Simplify(sc *kit.Scenario[StreamConfig, Block]) []*kit.Scenario[StreamConfig, Block] {
	var out []*kit.Scenario[StreamConfig, Block]
	modC := func(f func(c *StreamConfig)) {
		n := sc.WithOps(sc.Ops)
		c := sc.Config
		c.Reads = append([]int(nil), c.Reads...)
		c.TempErr = append([]int(nil), c.TempErr...)
		f(&c)
		n.Config = c
		out = append(out, n)
	}
	if len(sc.Config.TempErr) > 0 {
		modC(func(c *StreamConfig) { c.TempErr = nil })
	}
	if sc.Config.EofAt >= 0 {
		modC(func(c *StreamConfig) { c.EofAt = -1 })
	}
	if sc.Config.Tail != "" && sc.Config.Tail != "len24" {
		modC(func(c *StreamConfig) { c.Tail = "len24" })
	}
	if sc.Config.EofWithData {
		modC(func(c *StreamConfig) { c.EofWithData = false })
	}
	for i := range sc.Config.Hostile {
		i := i
		modC(func(c *StreamConfig) {
			c.Hostile = append(append([]HostileDgram(nil), c.Hostile[:i]...), c.Hostile[i+1:]...)
		})
		if sc.Config.Hostile[i].Arg > 0 {
			modC(func(c *StreamConfig) {
				c.Hostile = append([]HostileDgram(nil), c.Hostile...)
				c.Hostile[i].Arg /= 2
			})
		}
	}
	if len(sc.Config.Reads) > 1 {
		modC(func(c *StreamConfig) { c.Reads = c.Reads[:1] })
		modC(func(c *StreamConfig) { c.Reads = c.Reads[1:] })
	}
	for i, b := range sc.Ops {
		i := i
		if b.N > 1 {
			ops := append([]Block(nil), sc.Ops...)
			ops[i].N = b.N / 2
			out = append(out, sc.WithOps(ops))
		}
		if b.L > 0 {
			ops := append([]Block(nil), sc.Ops...)
			ops[i].L = b.L / 2
			out = append(out, sc.WithOps(ops))
		}
		if b.T != 5 {
			ops := append([]Block(nil), sc.Ops...)
			ops[i].T = 5
			out = append(out, sc.WithOps(ops))
		}
		if b.LF != 0 {
			ops := append([]Block(nil), sc.Ops...)
			ops[i].LF = 0
			out = append(out, sc.WithOps(ops))
		}
	}
	return out
}

// chunkReader hands out the stream in scenario-chosen pieces.
type chunkReader struct {
	data     []byte
	off      int
	reads    []int
	ri       int // read call index
	carry    int // remainder of the current chunk
	tempErr  map[int]bool
	withData bool
	ctx      *kit.Ctx
	calls    int
	maxCalls int
	inHdr    func(off int) bool
	hdrEnds  int
	spun     bool
	eofWith  bool // the last bytes come together with io.EOF
}

func (c *chunkReader) Read(p []byte) (int, error) {
	c.calls++
	if c.calls > c.maxCalls {
		// the framing loop keeps calling Read without consuming the stream (e.g. with a zero-length buffer)
		c.spun = true
		return 0, errSpin
	}
	idx := c.ri
	c.ri++
	if c.tempErr[idx] {
		c.ctx.Fault("transient-read-error")
		if !c.withData || c.off >= len(c.data) || len(p) == 0 {
			return 0, errTransient
		}
		p[0] = c.data[c.off]
		c.off++
		return 1, errTransient
	}
	if c.off >= len(c.data) {
		return 0, io.EOF
	}
	if len(p) == 0 {
		return 0, nil
	}
	if c.carry == 0 {
		c.carry = c.reads[idx%len(c.reads)]
		if c.carry < 1 {
			c.carry = 1
		}
	}
	n := c.carry
	if n > len(p) {
		n = len(p)
		c.ctx.Probe("read-filled-buffer")
	}
	if n > len(c.data)-c.off {
		n = len(c.data) - c.off
	}
	copy(p, c.data[c.off:c.off+n])
	c.off += n
	c.carry -= n
	if c.carry < 0 {
		c.carry = 0
	}
	if c.inHdr != nil && c.off < len(c.data) && c.inHdr(c.off) {
		c.ctx.Probe("read-ended-inside-type-or-length")
		c.hdrEnds++
	}
	if n == 1 {
		c.ctx.Probe("one-byte-read")
	}
	if c.eofWith && c.off >= len(c.data) {
		c.ctx.Fault("eof-together-with-last-bytes")
		return n, io.EOF
	}
	return n, nil
}

func (e StreamEngine) Run(t *testing.T, ctx *kit.Ctx, sc *kit.Scenario[StreamConfig, Block]) *kit.Result {
	res := &kit.Result{}
	// build the stream
	var blocks [][]byte
	var stream []byte
	hdr := map[int]bool{} // offsets strictly inside a T/L header
	idx := 0
	longForms := false
	for _, b := range sc.Ops {
		n := b.N
		if n < 1 {
			n = 1
		}
		for k := 0; k < n; k++ {
			bb := blockBytesForm(idx, b.T, b.L, b.LF)
			h := len(bb) - b.L
			if b.LF != 0 {
				longForms = true
			}
			for o := 1; o < h; o++ {
				hdr[len(stream)+o] = true
			}
			blocks = append(blocks, bb)
			stream = append(stream, bb...)
			idx++
		}
	}
	cut := len(stream)
	if sc.Config.EofAt >= 0 && sc.Config.EofAt < cut && sc.Config.Tail == "" {
		cut = sc.Config.EofAt
		ctx.Fault("eof-mid-stream")
	}
	// blocks completely before the cut are owed
	var want [][]byte
	off := 0
	for _, b := range blocks {
		if off+len(b) <= cut {
			want = append(want, b)
		}
		off += len(b)
	}
	data := stream[:cut]
	var got [][]byte
	// what goes wrong after an undecodable datagram is C04's ("a frame that fails to decode changes no state")
	pfx := "C11"
	if len(sc.Config.Hostile) > 0 {
		pfx = "C04"
	}
	faceDown := false
	fail := func(class, key, format string, a ...any) *kit.Result {
		res.Violation = &kit.Violation{Class: class, Key: key, Step: -1, Detail: fmt.Sprintf(format, a...)}
		return res
	}
	tempErr := map[int]bool{}
	for _, i := range sc.Config.TempErr {
		tempErr[i] = true
	}
	reads := sc.Config.Reads
	if len(reads) == 0 {
		reads = []int{1 << 20}
	}
	var runErr error
	hdrEnds := 0
	switch sc.Config.Target {
	case "fw":
		rd := &chunkReader{data: data, reads: reads, tempErr: tempErr, withData: sc.Config.ErrWithData, ctx: ctx,
			maxCalls: 4*len(data) + 100000, inHdr: func(o int) bool { return hdr[o] }, eofWith: sc.Config.EofWithData}
		runErr = face.VerifReadTlvStream(rd, func(f []byte) {
			got = append(got, append([]byte(nil), f...)) // copy inside the callback, as the link service does
		}, func(err error) bool { return errors.Is(err, errTransient) })
		hdrEnds = rd.hdrEnds
		if rd.spun {
			return fail("C11/framing-spins-without-progress", "fw", "readTlvStream made %d Read calls for a %d-byte stream without finishing (%d of %d blocks delivered): it reads with no buffer space or never advances", rd.calls, len(data), len(got), len(want))
		}
		if rd.calls > 0 && len(data) > maxPkt*32 {
			ctx.Probe("stream-longer-than-receive-buffer")
		}
	case "dgram":
		// the framing loop of the datagram transports over a scripted datagram socket
		dg, hostile := datagrams(blocks, reads, sc.Config.Hostile)
		want = blocks
		rd := &dgramReader{dgrams: dg, hostile: hostile, tempErr: tempErr, ctx: ctx, maxCalls: 4*len(dg) + 1000}
		runErr = face.VerifReadTlvDatagrams(rd, func(f []byte) {
			got = append(got, append([]byte(nil), f...))
		}, func(err error) bool { return errors.Is(err, errTransient) })
		if rd.spun {
			return fail(pfx+"/framing-spins-without-progress", "dgram", "the datagram receive loop made %d Read calls for %d datagrams without finishing (%d of %d blocks delivered)", rd.calls, len(dg), len(got), len(want))
		}
		if runErr == nil && rd.i < len(dg) {
			return fail(pfx+"/receive-loop-ended-early", "dgram", "the datagram receive loop returned after %d of %d datagrams", rd.i, len(dg))
		}
		ctx.Probe("datagram-framing")
	case "tcp", "unix":
		wire := openRealWire(sc.Config.Target)
		if wire == nil {
			ctx.Probe("loopback-sockets-unavailable")
			res.Steps = len(blocks)
			return res
		}
		var ls *face.VerifRecorderLinkService
		rec := func(f []byte) { got = append(got, f) }
		if wire.tcp != nil {
			ls = face.MakeVerifRecorderLinkService(wire.tcp, rec)
		} else {
			ls = face.MakeVerifRecorderLinkService(wire.unix, rec)
		}
		if sc.Config.FaceMtu > 0 {
			ls.SetMTU(sc.Config.FaceMtu)
		}
		ls.Run(nil)
		ctx.Probe("receive-loop-of-real-" + sc.Config.Target + "-transport")
		wire.peer.SetWriteDeadline(time.Now().Add(60 * time.Second))
		for off, i := 0, 0; off < len(data); i++ {
			n := reads[i%len(reads)]
			if n < 1 {
				n = 1
			}
			if n > len(data)-off {
				n = len(data) - off
			}
			if _, err := wire.peer.Write(data[off : off+n]); err != nil {
				break // the transport closed its end: the comparison below tells
			}
			off += n
		}
		wire.peer.Close() // end of stream
		// a receive loop that does not end after the end of the stream is a hang: the driver notices that this
		// run makes no progress, kills the worker and confirms it from the seed (3.8)
		<-ls.Done()
		wire.close()
	case "tcpout":
		// a permanent outgoing TCP face whose connection breaks in the middle of the stream (reset at EofAt) and
		// that reconnects: the new connection carries the stream again from the block that was cut; the receiver
		// must hand on every block exactly once - nothing of the old connection's partial block may survive
		ln, err := net.Listen("tcp4", "127.0.0.1:0")
		if err != nil {
			ctx.Probe("loopback-sockets-unavailable")
			res.Steps = len(blocks)
			return res
		}
		port := ln.Addr().(*net.TCPAddr).Port
		tr, err := face.MakeUnicastTCPTransport(defn.MakeTCPFaceURI(4, "127.0.0.1", uint16(port)), nil, face.PersistencyPermanent)
		if err != nil {
			panic("harness: MakeUnicastTCPTransport: " + err.Error())
		}
		var mu sync.Mutex
		ls := face.MakeVerifRecorderLinkService(tr, func(f []byte) { mu.Lock(); got = append(got, f); mu.Unlock() })
		ls.Run(nil)
		ctx.Probe("receive-loop-of-real-tcpout-transport")
		want = blocks // all of them, whatever the cut
		writeAll := func(c net.Conn, b []byte) {
			c.SetWriteDeadline(time.Now().Add(60 * time.Second))
			for off, i := 0, 0; off < len(b); i++ {
				n := reads[i%len(reads)]
				if n < 1 {
					n = 1
				}
				if n > len(b)-off {
					n = len(b) - off
				}
				if _, err := c.Write(b[off : off+n]); err != nil {
					return
				}
				off += n
			}
		}
		waitBlocks := func(n int) {
			for deadline := time.Now().Add(20 * time.Second); time.Now().Before(deadline); {
				mu.Lock()
				have := len(got)
				mu.Unlock()
				if have >= n {
					return
				}
				time.Sleep(200 * time.Microsecond)
			}
		}
		ln.(*net.TCPListener).SetDeadline(time.Now().Add(20 * time.Second))
		c1, err := ln.Accept()
		if err != nil {
			panic("harness: the outgoing TCP face did not connect: " + err.Error())
		}
		restart, whole := 0, 0 // offset of the block that the cut falls into; number of blocks before it
		for o := 0; whole < len(blocks) && o+len(blocks[whole]) <= cut; whole++ {
			o += len(blocks[whole])
			restart = o
		}
		if cut < len(stream) {
			ctx.Fault("connection-reset-mid-stream")
			writeAll(c1, stream[:cut])
			waitBlocks(whole) // everything complete so far has been read; then the connection dies
			c1.(*net.TCPConn).SetLinger(0)
			c1.Close()
			ln.(*net.TCPListener).SetDeadline(time.Now().Add(30 * time.Second))
			c2, err := ln.Accept()
			if err != nil {
				panic("harness: the permanent TCP face did not reconnect within 30 s: " + err.Error())
			}
			writeAll(c2, stream[restart:])
			c2.Close()
		} else {
			writeAll(c1, stream)
			c1.Close()
		}
		ln.Close()
		<-ls.Done() // (a receive loop that never ends is a hang, see above)
	case "udp":
		// the UDP transport reads its socket through the same stream framing: every datagram is one read() result,
		// and a block may span datagrams. One datagram is in flight at a time (the next is sent once every block
		// that the bytes sent so far complete has been delivered), so the kernel never has a reason to drop one
		wire := openRealWire("udp")
		if wire == nil {
			ctx.Probe("loopback-sockets-unavailable")
			res.Steps = len(blocks)
			return res
		}
		var mu sync.Mutex
		ls := face.MakeVerifRecorderLinkService(wire.udp, func(f []byte) { mu.Lock(); got = append(got, f); mu.Unlock() })
		if sc.Config.FaceMtu > 0 {
			ls.SetMTU(sc.Config.FaceMtu)
		}
		ls.Run(nil)
		ctx.Probe("receive-loop-of-real-udp-transport")
		ends := make([]int, 0, len(want)) // stream offsets at which a block is complete
		for o, k := 0, 0; k < len(want); k++ {
			o += len(want[k])
			ends = append(ends, o)
		}
		// pacing: at most about 48 KiB of socket buffer (a quarter of the default) is outstanding; then the harness waits until the transport's socket has
		// been read empty (rx_queue of that port in /proc/net/udp), so the kernel never has a reason to drop one
		drained := func() bool {
			deadline := time.Now().Add(10 * time.Second)
			for {
				q, ok := udpRxQueue(wire.udpDst.Port)
				if !ok {
					return false
				}
				if q == 0 {
					return true
				}
				if time.Now().After(deadline) {
					return true // the reader is stuck: the comparison below tells
				}
				time.Sleep(20 * time.Microsecond)
			}
		}
		if _, ok := udpRxQueue(wire.udpDst.Port); !ok {
			ctx.Probe("loopback-sockets-unavailable")
			wire.udp.Close()
			<-ls.Done()
			wire.close()
			res.Steps = len(blocks)
			return res
		}
		outstanding := 0
		dg, _ := datagrams(blocks, reads, sc.Config.Hostile)
		want = blocks
		ends = ends[:0]
		for range want {
			ends = append(ends, 0)
		}
		for _, d := range dg {
			if _, err := wire.udpPeer.WriteToUDP(d, wire.udpDst); err != nil {
				break
			}
			outstanding += 1280 + 2*len(d) // what a queued datagram costs the socket's receive buffer, generously
			if outstanding > 48<<10 {
				drained()
				outstanding = 0
			}
		}
		drained()
		// everything has been read from the socket; give the receive loop the time to hand the last blocks on
		for deadline := time.Now().Add(5 * time.Second); time.Now().Before(deadline); {
			mu.Lock()
			have := len(got)
			mu.Unlock()
			if have >= len(ends) {
				break
			}
			time.Sleep(100 * time.Microsecond)
		}
		select {
		case <-ls.Done():
			faceDown = true // the transport gave up although nobody closed it
		default:
		}
		wire.udp.Close()
		<-ls.Done() // (a loop that never ends is a hang, see above)
		wire.close()
	case "std":
		var deadlock any
		var runPanic any
		var runStack string
		var ms0, ms1 runtime.MemStats
		if tail := hostileTails[sc.Config.Tail]; tail != nil {
			data = append(append([]byte(nil), data...), tail...)
			pfx = "C04"
			ctx.Fault("impossible-length-in-stream/" + sc.Config.Tail)
		}
		runtime.ReadMemStats(&ms0)
		func() {
			defer func() { deadlock = recover() }()
			synctest.Test(t, func(t *testing.T) {
				a, b := net.Pipe()
				f := stdface.NewStreamFaceOnConn(b, true)
				done := make(chan struct{})
				f.SetCallback(func(r enc.ParseReader) error {
					got = append(got, r.Range(0, r.Length()).Join())
					return nil
				}, func(err error) error { runErr = err; return err })
				go func() {
					defer close(done)
					defer func() {
						if p := recover(); p != nil {
							runPanic, runStack = p, kit.PanicSite()
						}
					}()
					f.Run()
				}()
				pauseAt := map[int]bool{}
				for _, k := range sc.Config.PauseAt {
					pauseAt[k] = true
				}
				go func() {
					off, i := 0, 0
					for off < len(data) {
						if pauseAt[i] && sc.Config.PauseMs > 0 {
							time.Sleep(time.Duration(sc.Config.PauseMs) * time.Millisecond)
						}
						n := reads[i%len(reads)]
						i++
						if n < 1 {
							n = 1
						}
						if n > len(data)-off {
							n = len(data) - off
						}
						if _, err := a.Write(data[off : off+n]); err != nil {
							return
						}
						off += n
					}
					a.Close()
				}()
				<-done
			})
		}()
		runtime.ReadMemStats(&ms1)
		if runPanic != nil {
			return fail(pfx+"/panic", runStack, "StreamFace.Run panicked: %v", runPanic)
		}
		if grew := ms1.TotalAlloc - ms0.TotalAlloc; sc.Config.Tail != "" && grew > uint64(64<<20+64*len(data)) {
			return fail("C04/allocation-out-of-proportion", "stream-face", "a %d-byte stream made StreamFace.Run allocate %d bytes", len(data), grew)
		}
		if deadlock != nil {
			return fail("C11/stream-face-hangs", "std", "StreamFace.Run did not finish: %v", deadlock)
		}
		if sc.Config.Tail != "" {
			runErr = nil // how the face ends after the impossible header is its business; the blocks before it are owed
		}
		if errors.Is(runErr, io.EOF) || errors.Is(runErr, io.ErrUnexpectedEOF) || errors.Is(runErr, io.ErrClosedPipe) {
			runErr = nil
		}
	}
	res.Steps = len(blocks)
	key := sc.Config.Target
	if faceDown {
		return fail(pfx+"/face-closed-by-datagram", key, "the transport closed itself after %d of %d blocks; nothing but datagrams had been sent to it", len(got), len(want))
	}
	if pfx == "C04" {
		// C04 judges only what the undecodable datagrams did to the others
		if runErr != nil {
			return fail("C04/undecodable-datagram-changed-state", key+"/loop-ended", "the receive loop stopped with error %v after %d of %d blocks", runErr, len(got), len(want))
		}
		for i := 0; i < len(got) && i < len(want); i++ {
			if !bytes.Equal(got[i], want[i]) {
				return fail("C04/undecodable-datagram-changed-state", key+"/later-frame-altered", "frame %d: got %d bytes, block sent was %d bytes (first difference at %d)", i, len(got[i]), len(want[i]), firstDiff(got[i], want[i]))
			}
		}
		if len(got) != len(want) {
			return fail("C04/undecodable-datagram-changed-state", key+"/frames-lost-or-invented", "%d blocks sent in well-formed datagrams, %d frames delivered", len(want), len(got))
		}
	}
	if runErr != nil && longForms {
		// refusing a stream whose lengths are not in the shortest form is within the packet format; what was handed
		// on before the refusal must still be the blocks as sent
		ctx.Probe("stream-with-longer-length-forms-refused")
		if len(got) > len(want) {
			return fail("C11/frames-duplicated-or-invented", key, "%d blocks sent, %d frames delivered", len(want), len(got))
		}
		for i := range got {
			if !bytes.Equal(got[i], want[i]) {
				return fail("C11/frame-altered", key+"/longer-length-form", "frame %d: got %d bytes, block sent was %d bytes (first difference at %d)", i, len(got[i]), len(want[i]), firstDiff(got[i], want[i]))
			}
		}
		res.Steps = len(blocks)
		return res
	}
	if longForms {
		ctx.Probe("stream-with-longer-length-forms")
	}
	if runErr != nil {
		return fail("C11/well-formed-stream-rejected", key, "framing stopped with error %v after %d of %d blocks", runErr, len(got), len(want))
	}
	for i := 0; i < len(got) && i < len(want); i++ {
		if !bytes.Equal(got[i], want[i]) {
			kind := "altered"
			if len(got[i]) != len(want[i]) {
				kind = "split-or-merged"
			}
			return fail("C11/frame-"+kind, key, "frame %d: got %d bytes, block sent was %d bytes (first difference at %d)", i, len(got[i]), len(want[i]), firstDiff(got[i], want[i]))
		}
	}
	if len(got) < len(want) {
		return fail("C11/frames-lost", key, "%d blocks sent completely before EOF, %d frames delivered", len(want), len(got))
	}
	if len(got) > len(want) {
		return fail("C11/frames-duplicated-or-invented", key, "%d blocks sent, %d frames delivered", len(want), len(got))
	}
	wraps := len(data) / (maxPkt * 32)
	ctx.ProbeN("buffer-wraps", wraps)
	res.NonTrivial = (wraps >= 1 && hdrEnds > 0) || (sc.Config.Target != "fw" && len(blocks) > 3)
	d := kit.NewDigest().S(fmt.Sprint(sc.Config.Hostile, sc.Config.EofWithData)).I(len(blocks)).I(len(data)).S(strings.Trim(fmt.Sprint(sc.Config.Reads), "[]")).I(sc.Config.EofAt).S(sc.Config.Target).I(sc.Config.FaceMtu).I(sc.Config.PauseMs).S(fmt.Sprint(sc.Config.PauseAt))
	for _, b := range sc.Ops {
		d.I(b.T).I(b.L).I(b.N).I(b.LF)
	}
	res.Digest = d.Sum()
	ctx.State(res.Digest)
	return res
}

func firstDiff(a, b []byte) int {
	for i := 0; i < len(a) && i < len(b); i++ {
		if a[i] != b[i] {
			return i
		}
	}
	return min(len(a), len(b))
}
