package facesim

import (
	"crypto/sha256"
	"encoding/hex"
	"errors"
	"fmt"
	"io"
	"runtime"
	"sort"
	"strings"
	"testing"
	"testing/synctest"
	"time"

	"github.com/named-data/ndnd/fw/core"
	"github.com/named-data/ndnd/fw/defn"
	"github.com/named-data/ndnd/fw/dispatch"
	"github.com/named-data/ndnd/fw/face"
	"github.com/named-data/ndnd/fw/fw"
	"github.com/named-data/ndnd/fw/table"
	enc "github.com/named-data/ndnd/std/encoding"
	basic "github.com/named-data/ndnd/std/engine/basic"
	"github.com/named-data/ndnd/std/ndn"
	spec "github.com/named-data/ndnd/std/ndn/spec_2022"
	sec "github.com/named-data/ndnd/std/security"
	"github.com/named-data/ndnd/std/utils"

	"verifsim/kit"
)

// ---------------------------------------------------------------- C04: hostile link in front of the receive paths

type RxConfig struct {
	Threads int   `json:"threads"`
	Local   bool  `json:"local"`           // scope of the receiving face
	Stream  bool  `json:"stream"`          // frames arrive through the stream framing loop
	Reads   []int `json:"reads,omitempty"` // chunking of the stream
}

// RxOp is one frame put on the link: a valid base frame plus a corruption.
type RxOp struct {
	Base string `json:"base"` // interest data lp-interest lp-data frag nack idle random
	Seed int    `json:"seed"` // selects fields/sizes of the base frame deterministically
	Mut  string `json:"mut,omitempty"`
	// "" none | len (replace a length field) | lenfix (same, outer lengths patched) | trunc | flip | type | insert | fragfield | token
	At  int    `json:"at,omitempty"`  // which length field / byte offset / fragment index (modulo)
	Val uint64 `json:"val,omitempty"` // replacement value
	Hex string `json:"hex,omitempty"` // explicit frame (set by the shrinker/for replay of random frames)
}

type RxEngine struct{}

func (RxEngine) Name() string { return "rxsim" }

var hugeVals = MutVals

func (RxEngine) Generate(prop string, r *kit.Rand, tier string) *kit.Scenario[RxConfig, RxOp] {
	sc := &kit.Scenario[RxConfig, RxOp]{}
	c := &sc.Config
	c.Threads = kit.Pick(r, []int{1, 1, 2, 4, 32})
	c.Local = r.Chance(0.3)
	c.Stream = r.Chance(0.25)
	if c.Stream {
		n := r.Range(1, 5)
		for i := 0; i < n; i++ {
			c.Reads = append(c.Reads, kit.Pick(r, []int{1, 2, 3, 7, 100, 1500, 9000, 70000}))
		}
	}
	n := r.Range(5, 200)
	if r.Chance(0.5) {
		n = r.Range(3, 30)
	}
	if r.Chance(0.06) {
		// a stream shaped to fill the 32-packet receive buffer exactly, with a maximal (or oversize) block straddling its end
		c.Stream, c.Reads = true, []int{kit.Pick(r, []int{1 << 20, 281600, 140800, 8800})}
		if r.Chance(0.4) {
			// ... or one whose type and length are written in the nine-byte form around a value of the maximum size
			// (8818 bytes in all), placed so that a read which fills the buffer ends 8801..8817 bytes into it: a
			// left-over that is longer than any packet and still an incomplete block
			k := r.Range(8801, 8817)
			for i := 0; i < 30; i++ {
				sc.Ops = append(sc.Ops, RxOp{Base: "big", Seed: 8800})
			}
			sc.Ops = append(sc.Ops, RxOp{Base: "big", Seed: 17600 - k}, RxOp{Base: "biglong", Seed: 8800})
			sc.Ops = append(sc.Ops, RxOp{Base: "interest", Seed: r.Intn(1 << 16)}, RxOp{Base: "data", Seed: r.Intn(1 << 16)})
			c.Reads = []int{1 << 20}
			return sc
		}
		for i := 0; i < 31; i++ {
			sc.Ops = append(sc.Ops, RxOp{Base: "big", Seed: 8800})
		}
		sc.Ops = append(sc.Ops, RxOp{Base: "big", Seed: r.Range(8796, 8812)})
		sc.Ops = append(sc.Ops, RxOp{Base: "interest", Seed: r.Intn(1 << 16)}, RxOp{Base: "data", Seed: r.Intn(1 << 16)})
		return sc
	}
	if !c.Stream && r.Chance(0.03) {
		// a peer that starts many large messages and finishes none: first fragments that announce thousands of
		// fragments, each under its own sequence number
		perm := r.Perm(48)
		// ... or announces a message twice under the same sequence number, with another fragment count
		reannounce := r.Chance(0.5)
		for _, m := range perm[:r.Range(20, 48)] {
			huge := RxOp{Base: "fragx", Seed: m, Mut: "fragfield", At: 1, Val: kit.Pick(r, []uint64{8800, 8799, 4000, 1000})}
			if reannounce {
				pair := []RxOp{{Base: "fragx", Seed: m}, huge}
				if r.Chance(0.3) {
					pair[0], pair[1] = pair[1], pair[0]
				}
				sc.Ops = append(sc.Ops, pair...)
				continue
			}
			sc.Ops = append(sc.Ops, huge)
		}
		return sc
	}
	if !c.Stream && r.Chance(0.05) {
		// the long life of one face's reassembly store: a hundred or so fragmented messages, most delivered
		// completely and in order, some re-sent after completion, some left incomplete, a few with a corrupted field
		for k, nk := 0, r.Range(60, 160); k < nk; k++ {
			m := r.Intn(48)
			for f := 0; f < 6; f++ {
				if r.Chance(0.04) {
					continue // a lost fragment
				}
				o := RxOp{Base: "fragx", Seed: m + 48*f}
				if r.Chance(0.02) {
					o.Mut, o.At, o.Val = "fragfield", r.Intn(3), kit.Pick(r, hugeVals)
				}
				sc.Ops = append(sc.Ops, o)
			}
		}
		return sc
	}
	bases := []string{"interest", "data", "lp-interest", "lp-data", "frag", "nack", "idle", "random", "edge"}
	for i := 0; i < n; i++ {
		o := RxOp{Base: bases[r.Weighted([]int{5, 5, 5, 5, 6, 1, 1, 2, 3})], Seed: r.Intn(1 << 16)}
		switch r.Weighted([]int{15, 25, 10, 10, 8, 6, 4, 12, 8, 10, 8}) {
		case 0:
			o.Mut = ""
		case 1:
			o.Mut, o.At, o.Val = "len", r.Intn(64), kit.Pick(r, hugeVals)
		case 2:
			o.Mut, o.At, o.Val = "lenfix", r.Intn(64), kit.Pick(r, hugeVals)
		case 3:
			o.Mut, o.At = "trunc", r.Intn(9000)
		case 4:
			o.Mut, o.At, o.Val = "flip", r.Intn(9000), uint64(1+r.Intn(255))
		case 5:
			o.Mut, o.At, o.Val = "type", r.Intn(64), kit.Pick(r, []uint64{0, 5, 6, 7, 8, 0x14, 0x15, 0x16, 0x17, 0x1e, 0x24, 0x50, 0x51, 0x52, 0x53, 0x62, 0x64, 0xfd, 0xfe, 0xff})
		case 6:
			o.Mut, o.At, o.Val = "insert", r.Intn(9000), uint64(r.Intn(1<<16))
		case 7:
			o.Base = "frag"
			o.Mut, o.At, o.Val = "fragfield", r.Intn(3), kit.Pick(r, hugeVals) // 0 index, 1 count, 2 sequence
		case 8:
			o.Base = kit.Pick(r, []string{"lp-data", "lp-interest"})
			o.Mut, o.Val = "token", kit.Pick(r, []uint64{0, uint64(c.Threads - 1), uint64(c.Threads), uint64(c.Threads + 1), 255, 256, 65535})
		case 10:
			o.Mut, o.At, o.Val = "setnum", r.Intn(64), kit.Pick(r, hugeVals)
		case 9:
			o.Mut, o.At, o.Val = "resize", r.Intn(64), uint64(kit.Pick(r, []int{0, 0, 1, 2, 3, 4, 5, 6, 7, 8, 9, 10, 16, 31, 32, 33, 252, 253, 300}))
		}
		if o.Mut != "" && o.Mut != "fragfield" && o.Mut != "token" && r.Chance(0.3) {
			o.Mut += "+fix"
		}
		sc.Ops = append(sc.Ops, o)
	}
	return sc
}

func (RxEngine) Simplify(sc *kit.Scenario[RxConfig, RxOp]) []*kit.Scenario[RxConfig, RxOp] {
	var out []*kit.Scenario[RxConfig, RxOp]
	modC := func(f func(c *RxConfig)) {
		n := sc.WithOps(sc.Ops)
		c := sc.Config
		f(&c)
		n.Config = c
		out = append(out, n)
	}
	if sc.Config.Stream {
		modC(func(c *RxConfig) { c.Stream, c.Reads = false, nil })
	}
	if sc.Config.Threads != 1 {
		modC(func(c *RxConfig) { c.Threads = 1 })
	}
	if sc.Config.Local {
		modC(func(c *RxConfig) { c.Local = false })
	}
	for i, o := range sc.Ops {
		if o.Mut != "" && o.Hex == "" {
			ops := append([]RxOp(nil), sc.Ops...)
			ops[i].Mut = ""
			out = append(out, sc.WithOps(ops))
		}
		if o.Seed > 16 {
			ops := append([]RxOp(nil), sc.Ops...)
			ops[i].Seed = o.Seed % 16
			out = append(out, sc.WithOps(ops))
		}
	}
	return out
}

// ---- base traffic

var rxSigner = sec.NewSha256Signer()

func rxName(seed int) enc.Name {
	names := []string{"/a", "/a/b", "/a/b/c", "/b/seg=3", "/localhost/nfd/rib/list", "/localhop/x", "/c/v=7/seg=0", "/"}
	s := names[seed%len(names)]
	if s == "/" {
		return enc.Name{}
	}
	n, _ := enc.NameFromStr(s)
	return n
}

func rxInterest(seed int) []byte {
	cfg := &ndn.InterestConfig{CanBePrefix: seed&1 == 1, MustBeFresh: seed&2 == 2, Nonce: utils.IdPtr(uint64(0xabc000 + seed))}
	if seed&4 == 4 {
		cfg.Lifetime = utils.IdPtr(time.Duration(100+seed%900) * time.Millisecond)
	}
	if seed&8 == 8 {
		cfg.HopLimit = utils.IdPtr(uint(seed % 5))
	}
	if seed&16 == 16 {
		cfg.ForwardingHint = []enc.Name{rxName(seed / 3), rxName(seed / 5)}
	}
	var app enc.Wire
	if seed&32 == 32 {
		app = enc.Wire{make([]byte, seed%300)}
	}
	name := rxName(seed / 7)
	if len(name) == 0 {
		name = rxName(1)
	}
	ei, err := spec.Spec{}.MakeInterest(name, cfg, app, nil)
	if err != nil {
		panic("harness: MakeInterest: " + err.Error())
	}
	return ei.Wire.Join()
}

func rxData(seed int, size int) []byte {
	cfg := &ndn.DataConfig{ContentType: utils.IdPtr(ndn.ContentTypeBlob)}
	if seed&1 == 1 {
		cfg.Freshness = utils.IdPtr(time.Duration(seed%5000) * time.Millisecond)
	}
	if seed&2 == 2 {
		fb := enc.NewSegmentComponent(uint64(seed % 9))
		cfg.FinalBlockID = &fb
	}
	name := rxName(seed / 7)
	if len(name) == 0 {
		name = rxName(2)
	}
	ed, err := spec.Spec{}.MakeData(name, cfg, enc.Wire{make([]byte, size)}, rxSigner)
	if err != nil {
		panic("harness: MakeData: " + err.Error())
	}
	return ed.Wire.Join()
}

func lpWrap(inner []byte, seed int, threads int) *spec.LpPacket {
	lp := &spec.LpPacket{Fragment: enc.Wire{inner}}
	if seed&1 == 1 {
		lp.PitToken = []byte{0, byte(seed % threads), 1, 2, 3, byte(seed)}
	} else if seed&2 == 2 {
		lp.PitToken = make([]byte, seed%33)
	}
	if seed&4 == 4 {
		lp.NextHopFaceId = utils.IdPtr(uint64(seed % 4))
	}
	if seed&8 == 8 {
		lp.CongestionMark = utils.IdPtr(uint64(1))
	}
	if seed&16 == 16 {
		lp.CachePolicy = &spec.CachePolicy{CachePolicyType: 1}
	}
	if seed&32 == 32 {
		lp.IncomingFaceId = utils.IdPtr(uint64(seed))
	}
	return lp
}

func lpEncode(lp *spec.LpPacket) []byte {
	p := &spec.Packet{LpPacket: lp}
	e := spec.PacketEncoder{}
	e.Init(p)
	w := e.Encode(p)
	if w == nil {
		panic("harness: cannot encode LpPacket")
	}
	return w.Join()
}

// MutVals are the values written into length and number fields: the edges of every TLV length form, of the MTU, of
// int32/int64, and sizes no canonical encoder produces.
var MutVals = []uint64{0, 1, 2, 3, 5, 7, 9, 127, 252, 253, 254, 255, 256, 8799, 8800, 8801, 65535, 65536, 1<<31 - 1, 1 << 31, 1<<31 + 1,
	1<<32 - 1, 1 << 32, 1 << 40, 1 << 47, 1<<63 - 1, 1 << 63, 1<<63 + 1, 1<<64 - 16, 1<<64 - 11, 1<<64 - 10, 1<<64 - 9, 1<<64 - 3, 1<<64 - 2, 1<<64 - 1}

// GenMut draws one generic corruption (the kinds every C04 part shares): fields is the bound for the element index,
// span the bound for byte positions.
func GenMut(r *kit.Rand, fields, span int) (mut string, at int, val uint64) {
	switch r.Weighted([]int{4, 5, 4, 2, 3, 3, 2, 3}) {
	case 7:
		if r.Bool() {
			// (... and large values that a plausibility check may still let through: counts of ten and a hundred million)
			return "setnum", r.Intn(fields), kit.Pick(r, []uint64{1<<63 - 1, 1 << 63, 1<<63 + 1, 1<<64 - 2, 1<<64 - 1, 1<<32 - 1, 1 << 32, 1<<31 - 1, 1 << 31, 1 << 24, 99_999_998, 99_999_999})
		}
		return "setnum", r.Intn(fields), kit.Pick(r, MutVals)
	case 0:
		return "len", r.Intn(fields), kit.Pick(r, MutVals)
	case 1:
		return "lenfix", r.Intn(fields), kit.Pick(r, MutVals)
	case 2:
		return "resize", r.Intn(fields), uint64(kit.Pick(r, []int{0, 0, 1, 2, 3, 4, 5, 6, 7, 8, 9, 10, 16, 31, 32, 33, 252, 253, 300}))
	case 3:
		return "trunc", r.Intn(span), 0
	case 4:
		return "flip", r.Intn(span), uint64(1 + r.Intn(255))
	case 5:
		return "type", r.Intn(fields), uint64(r.Intn(256))
	}
	return "insert", r.Intn(span), uint64(r.Intn(1 << 16))
}

// GenMutFix is GenMut with, half of the time, the digests recomputed after the corruption (see Mutate).
func GenMutFix(r *kit.Rand, fields, span int) (mut string, at int, val uint64) {
	mut, at, val = GenMut(r, fields, span)
	if r.Bool() {
		mut += "+fix"
	}
	return
}

// tlField locates one TLV's type and length fields.
type tlField struct{ tOff, tLen, lOff, lLen, vLen int }

// walkTLV collects the TL headers of a frame, descending into known containers.
func walkTLV(b []byte, base int, out *[]tlField, depth int) { walkTLVIn(b, base, out, depth, false) }

// parsesAsTLVs: the bytes are exactly a non-empty sequence of TLV blocks.
func parsesAsTLVs(b []byte) bool {
	if len(b) < 2 {
		return false
	}
	for off := 0; off < len(b); {
		_, tl, ok := readVar(b[off:])
		if !ok {
			return false
		}
		l, ll, ok := readVar(b[off+tl:])
		if !ok || l > uint64(len(b)-off-tl-ll) {
			return false
		}
		off += tl + ll + int(l)
	}
	return true
}

func walkTLVIn(b []byte, base int, out *[]tlField, depth int, inContent bool) {
	containers := map[uint64]bool{0x64: true, 0x50: true, 0x05: true, 0x06: true, 0x07: true, 0x14: true, 0x16: true, 0x1c: true, 0x1e: true, 0x0320: true, 0x0334: true, 0x2c: true,
		0x68: true, 0x65: true, 0x6b: true, 0x80: true, 0x81: true, 0xc9: true, 0xca: true}
	off := 0
	for off < len(b) && depth < 8 {
		t, tl, ok := readVar(b[off:])
		if !ok {
			return
		}
		l, ll, ok := readVar(b[off+tl:])
		if !ok {
			return
		}
		f := tlField{tOff: base + off, tLen: tl, lOff: base + off + tl, lLen: ll, vLen: int(l)}
		*out = append(*out, f)
		vs := off + tl + ll
		if l > uint64(len(b)-vs) {
			return
		}
		if containers[t] || ((t == 0x15 || t == 0x24 || inContent || (depth == 0 && base == 0 && int(l) == len(b)-vs)) && parsesAsTLVs(b[vs:vs+int(l)])) {
			// Content / ApplicationParameters often carry nested TLV structures (advertisements, prefix operation
			// lists, state vectors, metadata): their fields are corrupted too
			walkTLVIn(b[vs:vs+int(l)], base+vs, out, depth+1, inContent || t == 0x15 || t == 0x24)
		}
		off = vs + int(l)
	}
}

func readVar(b []byte) (uint64, int, bool) {
	if len(b) == 0 {
		return 0, 0, false
	}
	switch {
	case b[0] <= 0xfc:
		return uint64(b[0]), 1, true
	case b[0] == 0xfd && len(b) >= 3:
		return uint64(b[1])<<8 | uint64(b[2]), 3, true
	case b[0] == 0xfe && len(b) >= 5:
		return uint64(b[1])<<24 | uint64(b[2])<<16 | uint64(b[3])<<8 | uint64(b[4]), 5, true
	case b[0] == 0xff && len(b) >= 9:
		v := uint64(0)
		for i := 1; i <= 8; i++ {
			v = v<<8 | uint64(b[i])
		}
		return v, 9, true
	}
	return 0, 0, false
}

func putVar(v uint64) []byte {
	switch {
	case v <= 0xfc:
		return []byte{byte(v)}
	case v <= 0xffff:
		return []byte{0xfd, byte(v >> 8), byte(v)}
	case v <= 0xffffffff:
		return []byte{0xfe, byte(v >> 24), byte(v >> 16), byte(v >> 8), byte(v)}
	default:
		b := []byte{0xff, 0, 0, 0, 0, 0, 0, 0, 0}
		for i := 0; i < 8; i++ {
			b[8-i] = byte(v >> (8 * i))
		}
		return b
	}
}

type rxWorld struct {
	threads   int
	fragCache map[int][][]byte
	tx        *face.NDNLPLinkService
	txFrames  [][]byte
}

// buildFrame produces the bytes of one op (deterministic in the op alone).
func (w *rxWorld) buildFrame(o *RxOp) []byte {
	if o.Hex != "" {
		b, err := hex.DecodeString(o.Hex)
		if err != nil {
			panic("harness: bad hex")
		}
		return b
	}
	var f []byte
	switch o.Base {
	case "interest":
		f = rxInterest(o.Seed)
	case "data":
		f = rxData(o.Seed, o.Seed%700)
	case "lp-interest":
		f = lpEncode(lpWrap(rxInterest(o.Seed), o.Seed/3, w.threads))
	case "lp-data":
		f = lpEncode(lpWrap(rxData(o.Seed, o.Seed%500), o.Seed/3, w.threads))
	case "nack":
		lp := lpWrap(rxInterest(o.Seed), 0, w.threads)
		lp.Nack = &spec.NetworkNack{Reason: uint64(o.Seed % 200)}
		f = lpEncode(lp)
	case "idle":
		f = lpEncode(&spec.LpPacket{Sequence: utils.IdPtr(uint64(o.Seed))})
	case "random":
		r := kit.NewRand(uint64(o.Seed))
		f = r.Bytes(1 + o.Seed%400)
		if o.Seed&1 == 1 {
			f[0] = kit.Pick(r, []byte{0x05, 0x06, 0x64})
		}
	case "edge":
		// hand-encoded packets that are unusual but structurally valid (or nearly so)
		tlv := func(t byte, v []byte) []byte { return append([]byte{t, byte(len(v))}, v...) }
		nonce := tlv(0x0a, []byte{1, 2, 3, byte(o.Seed)})
		emptyName := []byte{0x07, 0x00}
		digest32 := make([]byte, 32)
		cases := [][]byte{
			tlv(0x05, append(append([]byte{}, emptyName...), nonce...)),                                     // Interest with the empty name
			tlv(0x05, append(append(append([]byte{}, emptyName...), nonce...), 0x24, 0x00)),                 // ... and empty ApplicationParameters
			tlv(0x05, append(append([]byte{}, emptyName...), 0x24, 0x00)),                                   // ... parameters, no nonce
			tlv(0x05, append(append(append([]byte{}, emptyName...), nonce...), tlv(0x24, []byte{9, 9})...)), // ... non-empty parameters
			tlv(0x06, emptyName), // Data with the empty name and nothing else
			tlv(0x06, append(append([]byte{}, emptyName...), tlv(0x15, []byte{1})...)),                     // Data, empty name, content
			tlv(0x05, append(tlv(0x07, tlv(0x02, digest32)), nonce...)),                                    // Interest whose only component is a parameters digest
			tlv(0x05, append(append(tlv(0x07, tlv(0x02, digest32)), nonce...), 0x24, 0x00)),                // ... with parameters (digest mismatch)
			tlv(0x05, append(tlv(0x07, tlv(0x08, nil)), nonce...)),                                         // Interest with one zero-length component
			tlv(0x05, append(tlv(0x07, append(tlv(0x08, []byte{'a'}), tlv(0x01, digest32)...)), nonce...)), // implicit digest component
			tlv(0x64, tlv(0x50, tlv(0x05, append(append([]byte{}, emptyName...), nonce...)))),              // the first case inside an LpPacket
			tlv(0x64, append(tlv(0x62, []byte{0, 0, 1, 2, 3, 4}), tlv(0x50, tlv(0x06, emptyName))...)),     // empty-name Data with a PIT token
			tlv(0x64, nil),            // empty LpPacket
			tlv(0x64, tlv(0x50, nil)), // LpPacket with an empty fragment
		}
		f = cases[o.Seed%len(cases)]
	case "biglong":
		// an opaque TLV block with a value of o.Seed bytes, type and length in the nine-byte form
		l := o.Seed
		f = append([]byte{0xff, 0, 0, 0, 0, 0, 0, 0, 0x06, 0xff, 0, 0, 0, 0, 0, 0, byte(l >> 8), byte(l)}, make([]byte, l)...)
		for i := 18; i < len(f); i++ {
			f[i] = byte(i * 7)
		}
	case "big":
		// an opaque TLV block of o.Seed bytes in total (3-byte length form); not a valid packet
		l := o.Seed - 4
		if l < 253 {
			l = 253
		}
		f = append([]byte{0x06, 0xfd, byte(l >> 8), byte(l)}, make([]byte, l)...)
		for i := 4; i < len(f); i++ {
			f[i] = byte(i * 7)
		}
	case "frag", "fragx":
		// a message of several fragments produced by the real sender; op selects one fragment ("fragx": one of 48
		// messages instead of 8, for long histories of a face's reassembly store)
		nmsg := 8
		if o.Base == "fragx" {
			nmsg = 48
		}
		msg := o.Seed % nmsg
		if o.Base == "fragx" {
			msg += 100
		}
		frs := w.fragCache[msg]
		if frs == nil {
			raw := rxData(msg*13+1, 600+(msg%8)*250)
			p, _, _ := spec.ReadPacket(enc.NewBufferReader(append([]byte(nil), raw...)))
			w.txFrames = nil
			w.tx.VerifSendNow(dispatch.OutPkt{Pkt: &defn.Pkt{L3: p, Raw: raw, Name: p.Data.NameV}, PitToken: []byte{0, 0, 9, 9, 9, byte(msg)}})
			frs = w.txFrames
			w.fragCache[msg] = frs
		}
		if len(frs) == 0 {
			return rxData(o.Seed, 10)
		}
		f = append([]byte(nil), frs[(o.Seed/nmsg)%len(frs)]...)
	default:
		f = rxInterest(o.Seed)
	}
	return Mutate(f, o.Mut, o.At, o.Val)
}

// Mutate applies one structure-aware corruption to a frame (the fault kinds of the hostile link): "len"/"lenfix"
// rewrite the length field of the at-th TLV (lenfix also patches the enclosing lengths), "trunc" cuts the frame,
// "flip" xors a byte, "type" rewrites a type field, "insert" adds bytes, "fragfield"/"token" rewrite link-protocol
// fields. Other values leave the frame as it is.
func Mutate(f []byte, mut string, at int, val uint64) []byte {
	if base, ok := strings.CutSuffix(mut, "+fix"); ok {
		// the sender is an attacker, not a noisy wire: digests that cover the corrupted part are recomputed, so
		// that the packet passes the integrity checks in front of the decoders behind them
		return RepairDigests(Mutate(f, base, at, val))
	}
	f = append([]byte(nil), f...)
	switch mut {
	case "len", "lenfix":
		var fs []tlField
		walkTLV(f, 0, &fs, 0)
		if len(fs) == 0 {
			return f
		}
		k := at % len(fs)
		fl := fs[k]
		nl := putVar(val)
		g := append(append(append([]byte(nil), f[:fl.lOff]...), nl...), f[fl.lOff+fl.lLen:]...)
		if mut == "lenfix" {
			// patch the enclosing lengths so that only this TLV disagrees with its content
			delta := len(nl) - fl.lLen
			for j := k - 1; j >= 0; j-- {
				e := fs[j]
				if e.lOff+e.lLen+e.vLen >= fl.lOff+fl.lLen && e.lOff < fl.lOff && e.lLen == len(putVar(uint64(e.vLen+delta))) {
					copy(g[e.lOff:], putVar(uint64(e.vLen+delta)))
				}
			}
		}
		return g
	case "setnum":
		// one element's value becomes the shortest natural-number encoding (1, 2, 4 or 8 bytes) of val, all enclosing
		// lengths re-encoded: a consistent packet in which one number (a sequence number, a segment number in a
		// FinalBlockId, a lifetime, a cost) is a boundary value
		var nb []byte
		switch {
		case val <= 0xff:
			nb = []byte{byte(val)}
		case val <= 0xffff:
			nb = []byte{byte(val >> 8), byte(val)}
		case val <= 0xffffffff:
			nb = []byte{byte(val >> 24), byte(val >> 16), byte(val >> 8), byte(val)}
		default:
			nb = make([]byte, 8)
			for i := 0; i < 8; i++ {
				nb[7-i] = byte(val >> (8 * i))
			}
		}
		var fs []tlField
		walkTLV(f, 0, &fs, 0)
		if len(fs) == 0 {
			return f
		}
		// prefer elements that look like numbers (1, 2, 4 or 8 bytes, nothing after them inside their parent... or
		// simply short): at counts among those
		var cand []int
		for i, fl := range fs {
			if (fl.vLen == 1 || fl.vLen == 2 || fl.vLen == 4 || fl.vLen == 8) && fl.vLen >= 0 && fl.lOff+fl.lLen+fl.vLen <= len(f) &&
				(i+1 >= len(fs) || fs[i+1].tOff >= fl.lOff+fl.lLen+fl.vLen) {
				cand = append(cand, i)
			}
		}
		if len(cand) > 0 {
			at = cand[at%len(cand)]
		}
		g := Mutate(f, "resize", at, uint64(len(nb)))
		if len(g) == len(f) && len(nb) != fs[at%len(fs)].vLen {
			return g
		}
		// the resized element keeps its type/length offsets up to its own header: find it again in g
		var gs []tlField
		walkTLV(g, 0, &gs, 0)
		k := at % len(fs)
		if k < len(gs) && gs[k].vLen == len(nb) && gs[k].lOff+gs[k].lLen+len(nb) <= len(g) {
			copy(g[gs[k].lOff+gs[k].lLen:], nb)
		}
		return g
	case "resize":
		// one element's value is cut or zero-padded to val bytes and every enclosing length is re-encoded, so the
		// frame stays perfectly consistent: only the element's own size is unusual (a number of 0, 3 or 9 bytes, an
		// empty name, a 7-byte nonce ...)
		var fs []tlField
		walkTLV(f, 0, &fs, 0)
		if len(fs) == 0 {
			return f
		}
		k := at % len(fs)
		fl := fs[k]
		vOff := fl.lOff + fl.lLen
		if fl.vLen < 0 || vOff+fl.vLen > len(f) || vOff+fl.vLen < vOff || val > 1<<16 {
			return f
		}
		nv := make([]byte, int(val))
		copy(nv, f[vOff:vOff+fl.vLen])
		nl := putVar(val)
		g := append(append(append(append([]byte(nil), f[:fl.lOff]...), nl...), nv...), f[vOff+fl.vLen:]...)
		delta := len(nl) + len(nv) - fl.lLen - fl.vLen
		for j := k - 1; j >= 0; j-- { // enclosing elements come earlier in pre-order; innermost first
			e := fs[j]
			if e.lOff+e.lLen <= fl.tOff && e.lOff+e.lLen+e.vLen >= vOff+fl.vLen {
				el := putVar(uint64(e.vLen + delta))
				g = append(append(append([]byte(nil), g[:e.lOff]...), el...), g[e.lOff+e.lLen:]...)
				delta += len(el) - e.lLen
			}
		}
		return g
	case "trunc":
		if len(f) > 0 {
			return f[:at%len(f)]
		}
	case "flip":
		if len(f) > 0 {
			f[at%len(f)] ^= byte(val)
		}
	case "type":
		var fs []tlField
		walkTLV(f, 0, &fs, 0)
		if len(fs) > 0 {
			fl := fs[at%len(fs)]
			if fl.tLen == 1 {
				f[fl.tOff] = byte(val)
			}
		}
	case "insert":
		r := kit.NewRand(val)
		pos := 0
		if len(f) > 0 {
			pos = at % len(f)
		}
		ins := r.Bytes(1 + int(val%40))
		return append(append(append([]byte(nil), f[:pos]...), ins...), f[pos:]...)
	case "fragfield":
		p, _, err := spec.ReadPacket(enc.NewBufferReader(append([]byte(nil), f...)))
		if err == nil && p.LpPacket != nil {
			lp := p.LpPacket
			switch at % 3 {
			case 0:
				lp.FragIndex = utils.IdPtr(val)
			case 1:
				lp.FragCount = utils.IdPtr(val)
			case 2:
				lp.Sequence = utils.IdPtr(val)
			}
			return lpEncode(lp)
		}
	case "token":
		p, _, err := spec.ReadPacket(enc.NewBufferReader(append([]byte(nil), f...)))
		if err == nil && p.LpPacket != nil {
			p.LpPacket.PitToken = []byte{byte(val >> 8), byte(val), 1, 2, 3, 4}
			return lpEncode(p.LpPacket)
		}
	}
	return f
}

// RepairDigests recomputes, in place, the parameters digest of an Interest and the DigestSha256 signature of a Data
// packet (bare or inside an LpPacket fragment) when the frame is still well-formed enough to find them.
func RepairDigests(f []byte) []byte {
	f = append([]byte(nil), f...)
	type el struct {
		t            uint64
		off, vs, end int
	}
	children := func(lo, hi int) []el {
		var out []el
		for off := lo; off < hi; {
			t, tl, ok := readVar(f[off:hi])
			if !ok {
				return nil
			}
			l, ll, ok := readVar(f[off+tl : hi])
			if !ok || l > uint64(hi-off-tl-ll) {
				return nil
			}
			out = append(out, el{t, off, off + tl + ll, off + tl + ll + int(l)})
			off += tl + ll + int(l)
		}
		return out
	}
	var fix func(lo, hi, depth int)
	fix = func(lo, hi, depth int) {
		for _, e := range children(lo, hi) {
			switch e.t {
			case 0x64:
				if depth == 0 {
					for _, c := range children(e.vs, e.end) {
						if c.t == 0x50 {
							fix(c.vs, c.end, depth+1)
						}
					}
				}
			case 0x05:
				kids := children(e.vs, e.end)
				dg, ap := -1, -1
				for _, k := range kids {
					if k.t == 0x07 {
						for _, c := range children(k.vs, k.end) {
							if c.t == 0x02 && c.end-c.vs == 32 {
								dg = c.vs
							}
						}
					}
					if k.t == 0x24 && ap < 0 {
						ap = k.off
					}
				}
				if dg >= 0 && ap >= 0 {
					h := sha256.Sum256(f[ap:e.end])
					copy(f[dg:dg+32], h[:])
				}
			case 0x06:
				kids := children(e.vs, e.end)
				for i, k := range kids {
					if k.t == 0x17 && k.end-k.vs == 32 && i > 0 && kids[i-1].t == 0x16 && len(kids) > 0 {
						sha := false
						for _, c := range children(kids[i-1].vs, kids[i-1].end) {
							if c.t == 0x1b && c.end-c.vs == 1 && f[c.vs] == 0 {
								sha = true
							}
						}
						if sha {
							h := sha256.Sum256(f[kids[0].off:k.off])
							copy(f[k.vs:k.end], h[:])
						}
					}
				}
			}
		}
	}
	fix(0, len(f), 0)
	return f
}

// countingThread wraps a real forwarding thread to observe dispatch.
type countingThread struct {
	th *fw.Thread
	n  *int
}

func (c *countingThread) String() string { return c.th.String() }
func (c *countingThread) QueueData(p *defn.Pkt) {
	*c.n++
	c.th.QueueData(p)
}
func (c *countingThread) QueueInterest(p *defn.Pkt) {
	*c.n++
	c.th.QueueInterest(p)
}
func (c *countingThread) GetNumPitEntries() int { return c.th.GetNumPitEntries() }
func (c *countingThread) GetNumCsEntries() int  { return c.th.GetNumCsEntries() }

type sinkFace struct{ id uint64 }

func (f *sinkFace) String() string                 { return "sink" }
func (f *sinkFace) SetFaceID(id uint64)            { f.id = id }
func (f *sinkFace) FaceID() uint64                 { return f.id }
func (f *sinkFace) LocalURI() *defn.URI            { return nil }
func (f *sinkFace) RemoteURI() *defn.URI           { return nil }
func (f *sinkFace) Scope() defn.Scope              { return defn.NonLocal }
func (f *sinkFace) LinkType() defn.LinkType        { return defn.PointToPoint }
func (f *sinkFace) MTU() int                       { return 8800 }
func (f *sinkFace) State() defn.State              { return defn.Up }
func (f *sinkFace) SendPacket(out dispatch.OutPkt) {}

type appFace struct {
	onPkt func(r enc.ParseReader) error
	run   bool
}

func (f *appFace) Open() error             { f.run = true; return nil }
func (f *appFace) Close() error            { f.run = false; return nil }
func (f *appFace) Send(pkt enc.Wire) error { return nil }
func (f *appFace) IsRunning() bool         { return f.run }
func (f *appFace) IsLocal() bool           { return true }
func (f *appFace) SetCallback(onPkt func(r enc.ParseReader) error, onError func(err error) error) {
	f.onPkt = onPkt
}

type appTimer struct{ now time.Time }

func (t *appTimer) Now() time.Time                              { return t.now }
func (t *appTimer) Sleep(time.Duration)                         {}
func (t *appTimer) Schedule(time.Duration, func()) func() error { return func() error { return nil } }
func (t *appTimer) Nonce() []byte                               { return []byte{1, 2, 3, 4, 5, 6, 7, 8} }

func (e RxEngine) Run(t *testing.T, ctx *kit.Ctx, sc *kit.Scenario[RxConfig, RxOp]) *kit.Result {
	configureFaces()
	res := &kit.Result{}
	var pan any
	var site string
	step := 0
	var curFrame []byte
	synctest.Test(t, func(t *testing.T) {
		var ths []*fw.Thread
		var rxp *table.PitCsTree
		_ = rxp
		stop := func() {
			core.ShouldQuit = true
			for _, th := range ths {
				th.TellToQuit()
			}
			for _, th := range ths {
				<-th.HasQuit
			}
			for i := 0; i < 3; i++ {
				time.Sleep(200 * time.Millisecond)
				synctest.Wait()
				for _, th := range ths {
					select {
					case <-th.VerifPitCS().UpdateTimer():
					default:
					}
				}
			}
			core.ShouldQuit = false
		}
		defer func() {
			if p := recover(); p != nil {
				pan, site = p, kit.PanicSite()
				stop()
			}
		}()
		c := sc.Config
		cfg := core.GetConfig()
		cfg.Fw.Threads = c.Threads
		cfg.Tables.ContentStore.Capacity = 16
		core.ShouldQuit = false
		table.VerifResetGlobals()
		table.Configure()
		fw.Configure()
		table.CreateFIBTable("nametree")
		for id := uint64(0); id < 1200; id++ { // every face id a scenario can have used (only the exported API, so that the table's representation can change)
			dispatch.RemoveFace(id)
		}
		dispatched := 0
		var disp []dispatch.FWThread
		for i := 0; i < c.Threads; i++ {
			th := fw.NewThread(i)
			ths = append(ths, th)
			disp = append(disp, &countingThread{th: th, n: &dispatched})
		}
		fw.Threads = ths
		dispatch.InitializeFWThreads(disp)
		for _, th := range ths {
			go th.Run()
		}
		scope := defn.NonLocal
		if c.Local {
			scope = defn.Local
		}
		ropt := face.MakeNDNLPLinkServiceOptions()
		ropt.IsConsumerControlledForwardingEnabled = c.Local
		ropt.IsLocalCachePolicyEnabled = c.Local
		rx := face.MakeNDNLPLinkService(face.MakeSimTransport(defn.MakeNullFaceURI(), defn.MakeNullFaceURI(), scope, defn.PointToPoint, defn.MaxNDNPacketSize, nil), ropt)
		rx.SetFaceID(21)
		dispatch.AddFace(21, rx)
		dispatch.AddFace(22, &sinkFace{id: 22})
		for _, p := range []string{"/a", "/b", "/c"} {
			n, _ := enc.NameFromStr(p)
			table.FibStrategyTable.InsertNextHopEnc(n, 22, 1)
		}
		w := &rxWorld{threads: c.Threads, fragCache: map[int][][]byte{}}
		w.tx = face.MakeNDNLPLinkService(face.MakeSimTransport(defn.MakeNullFaceURI(), defn.MakeNullFaceURI(), defn.NonLocal, defn.PointToPoint, 400,
			func(f []byte) { w.txFrames = append(w.txFrames, f) }), face.MakeNDNLPLinkServiceOptions())
		// application engine receiving the same hostile traffic
		af := &appFace{}
		at := &appTimer{now: time.Now()}
		app := basic.NewEngine(af, at, rxSigner, func(enc.Name, enc.Wire, ndn.Signature) bool { return true })
		app.Start()
		app.AttachHandler(rxName(0), func(a ndn.InterestHandlerArgs) {})
		for i := 0; i < 4; i++ {
			ei, _ := spec.Spec{}.MakeInterest(rxName(i), &ndn.InterestConfig{CanBePrefix: true, Nonce: utils.IdPtr(uint64(i))}, nil, nil)
			app.Express(ei, func(ndn.ExpressCallbackArgs) {})
		}
		synctest.Wait()

		stateDigest := func() uint64 {
			d := kit.NewDigest()
			for _, th := range ths {
				st := th.VerifPitCS().(*table.PitCsTree).VerifStats()
				d.I(st.PitEntriesTrue).I(st.CsEntriesTrue).I(st.TreeNodes)
			}
			pm, pf := rx.VerifPartialStoreSize()
			d.I(pm).I(pf).I(len(table.FibStrategyTable.GetAllFIBEntries()))
			return d.Sum()
		}
		var ms runtime.MemStats
		dg := kit.NewDigest()
		decodedPastOuter := false
		feed := func(frame []byte) {
			curFrame = frame
			before := stateDigest()
			d0 := dispatched
			runtime.ReadMemStats(&ms)
			a0 := ms.TotalAlloc
			rx.VerifHandleFrame(frame)
			synctest.Wait()
			runtime.ReadMemStats(&ms)
			grew := ms.TotalAlloc - a0
			// the same bytes through the application engine: contiguous and segmented readers
			af.onPkt(enc.NewBufferReader(append([]byte(nil), frame...)))
			if len(frame) >= 2 {
				cut := 1 + (len(frame)*7+step)%(len(frame)-1)
				af.onPkt(enc.NewWireReader(enc.Wire{append([]byte(nil), frame[:cut]...), append([]byte(nil), frame[cut:]...)}))
				// an empty segment is a legal piece of a segmented buffer (an empty fragment, an empty content block)
				a, b := append([]byte(nil), frame[:cut]...), append([]byte(nil), frame[cut:]...)
				af.onPkt(enc.NewWireReader([]enc.Wire{{{}, a, b}, {a, {}, b}, {a, b, {}}, {a, {}, {}, b}}[step%4]))
				if len(frame) >= 6 {
					c2 := cut / 2
					if c2 > 0 && c2 < cut {
						af.onPkt(enc.NewWireReader(enc.Wire{append([]byte(nil), frame[:c2]...), append([]byte(nil), frame[c2:cut]...), append([]byte(nil), frame[cut:]...)}))
					}
				}
			}
			runtime.ReadMemStats(&ms)
			grewApp := ms.TotalAlloc - a0 - grew
			limit := uint64(1<<20 + 64*len(frame))
			// "in proportion": linear in the frame. A Data packet without a PIT token goes to every thread that one
			// of its name prefixes hashes to, and each admits it to its cache (a name-tree node per component): the
			// factor grows with the number of threads, the bound stays linear in the input
			fwLimit := limit + uint64(len(frame))*uint64(256*w.threads)
			if res.Violation == nil && grew > fwLimit {
				res.Violation = &kit.Violation{Class: "C04/allocation-out-of-proportion", Key: "forwarder-receive-path", Step: step,
					Detail: fmt.Sprintf("a %d-byte frame made the forwarder's receive path allocate %d bytes", len(frame), grew)}
			}
			if res.Violation == nil && grewApp > 4*limit {
				res.Violation = &kit.Violation{Class: "C04/allocation-out-of-proportion", Key: "engine-receive-path", Step: step,
					Detail: fmt.Sprintf("a %d-byte frame made the application engine allocate %d bytes", len(frame), grewApp)}
			}
			pkt, _, derr := spec.ReadPacket(enc.NewBufferReader(append([]byte(nil), frame...)))
			if derr == nil && pkt != nil {
				// what the decoder returned is printed by whoever logs the packet (the router and the sync layer do
				// at their default level): the text form of a name is part of what a byte sequence can make a
				// receiver allocate
				var nm enc.Name
				if pkt.Interest != nil {
					nm = pkt.Interest.NameV
				} else if pkt.Data != nil {
					nm = pkt.Data.NameV
				}
				if len(nm) > 0 {
					runtime.ReadMemStats(&ms)
					t0 := ms.TotalAlloc
					txt := nm.String()
					runtime.ReadMemStats(&ms)
					if g := ms.TotalAlloc - t0; res.Violation == nil && g > uint64(64<<10+16*len(frame)) {
						res.Violation = &kit.Violation{Class: "C04/allocation-out-of-proportion", Key: "name-text-form", Step: step,
							Detail: fmt.Sprintf("printing the name of a decoded %d-byte packet (%d characters) allocated %d bytes", len(frame), len(txt), g)}
					}
				}
			}
			if derr != nil {
				ctx.Probe("frame-failed-to-decode")
				if res.Violation == nil && (dispatched != d0 || stateDigest() != before) {
					res.Violation = &kit.Violation{Class: "C04/undecodable-frame-changed-state", Key: "", Step: step,
						Detail: fmt.Sprintf("frame %x fails to decode but changed forwarder state (dispatched %d packets)", frame[:min(len(frame), 40)], dispatched-d0)}
				}
			} else {
				decodedPastOuter = true
			}
			if dispatched != d0 {
				ctx.Probe("frame-dispatched")
			}
			dg.I(dispatched - d0).U(stateDigest())
		}
		// frames of this run
		var frames [][]byte
		for i := range sc.Ops {
			frames = append(frames, w.buildFrame(&sc.Ops[i]))
			if sc.Ops[i].Mut != "" {
				ctx.Fault("corrupt/" + sc.Ops[i].Mut)
			}
		}
		if !c.Stream {
			// what the forwarder keeps after the frames are gone must be in proportion to what it was sent
			runtime.GC()
			runtime.ReadMemStats(&ms)
			heap0, inputBytes := ms.HeapAlloc, 0
			for i, f := range frames {
				step = i
				feed(f)
				inputBytes += len(f)
				res.Steps++
				if res.Violation != nil {
					break
				}
			}
			if res.Violation == nil {
				runtime.GC()
				runtime.ReadMemStats(&ms)
				if kept := int64(ms.HeapAlloc) - int64(heap0); kept > int64(2<<20+8*inputBytes) {
					pm, pf := rx.VerifPartialStoreSize()
					res.Violation = &kit.Violation{Class: "C04/memory-retained-out-of-proportion", Key: "forwarder-receive-path", Step: step,
						Detail: fmt.Sprintf("%d frames (%d bytes in all) left %d bytes on the heap after garbage collection (reassembly store: %d messages, %d fragments)", len(frames), inputBytes, kept, pm, pf)}
				}
			}
		} else {
			// concatenate and push through the real stream framing with scenario chunking
			var stream []byte
			for _, f := range frames {
				stream = append(stream, f...)
			}
			rd := &chunkReader{data: stream, reads: c.Reads, tempErr: map[int]bool{}, ctx: ctx, maxCalls: 4*len(stream) + 100000}
			if len(rd.reads) == 0 {
				rd.reads = []int{1 << 20}
			}
			err := face.VerifReadTlvStream(rd, func(f []byte) {
				if res.Violation == nil {
					feed(append([]byte(nil), f...))
					step++
					res.Steps++
				}
			}, nil)
			if rd.spun && res.Violation == nil {
				res.Violation = &kit.Violation{Class: "C04/spin", Key: "fw/face.readTlvStream", Step: step,
					Detail: fmt.Sprintf("readTlvStream made %d Read calls for a %d-byte stream without finishing: it keeps reading with no buffer space left", rd.calls, len(stream))}
			}
			if err != nil && !errors.Is(err, io.EOF) {
				ctx.Probe("stream-framing-error")
			}
		}
		mutFed := false
		for i := range sc.Ops {
			if sc.Ops[i].Mut != "" && len(frames[i]) >= 2 {
				mutFed = true
			}
		}
		res.NonTrivial = decodedPastOuter && mutFed
		res.Digest = dg.Sum()
		ctx.State(res.Digest)
		stop()
	})
	if pan != nil {
		if strings.HasPrefix(site, "harness:") {
			panic(pan)
		}
		msg := fmt.Sprint(pan)
		if len(msg) > 200 {
			msg = msg[:200]
		}
		res.Violation = &kit.Violation{Class: "C04/panic", Key: site, Step: step, Detail: fmt.Sprintf("%s (frame %x)", msg, curFrame[:min(len(curFrame), 48)])}
	}
	res.SimNanos = 0
	return res
}

var _ = sort.Strings
