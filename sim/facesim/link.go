package facesim

import (
	"bytes"
	"fmt"
	"net"
	"os"
	"path/filepath"
	"testing"
	"time"

	"github.com/named-data/ndnd/fw/core"
	"github.com/named-data/ndnd/fw/defn"
	"github.com/named-data/ndnd/fw/dispatch"
	"github.com/named-data/ndnd/fw/face"
	"github.com/named-data/ndnd/fw/fw"
	enc "github.com/named-data/ndnd/std/encoding"
	"github.com/named-data/ndnd/std/ndn"
	spec "github.com/named-data/ndnd/std/ndn/spec_2022"
	sec "github.com/named-data/ndnd/std/security"
	"github.com/named-data/ndnd/std/utils"

	"verifsim/kit"
)

// ---------------------------------------------------------------- C10: fragmentation and reassembly

type LinkConfig struct {
	MTU     int    `json:"mtu"`
	Frag    bool   `json:"frag"`       // sender fragmentation enabled
	InFace  bool   `json:"inface_ind"` // sender adds incoming-face indication
	Threads int    `json:"threads"`    // forwarding threads behind the receiver
	Pop     string `json:"population"` // clean | loss | dup
	// Wire: "" = the sender's transport is simulated (frames are captured at sendFrame); "tcp" / "unix" = the sender
	// runs on the repository's real TCP / Unix-stream transport over a loopback connection, and the frames are what
	// arrives at the other end of the socket
	Wire string `json:"wire,omitempty"`
	// Warm: the face is not new - this many maximum-size packets have been fragmented, sent and reassembled on it
	// (in order, without loss) before the scenario's messages: thousands of fragments in the life of the stores
	Warm int `json:"warm,omitempty"`
	// SeqStart: the sequence number of the sender's next fragment (0: as a new face; otherwise a face - or a peer
	// implementation - whose counter stands just below 2^32, 2^63 or 2^64: sequence numbers are 64-bit counters
	// that wrap around, and base sequence = sequence - index is computed modulo 2^64)
	SeqStart uint64 `json:"seq_start,omitempty"`
}

type LinkOp struct {
	Op     string `json:"op"` // send deliver drop dup flush
	Kind   string `json:"kind,omitempty"`
	Size   int    `json:"size,omitempty"`    // target wire size of the network packet
	OutTok int    `json:"out_tok,omitempty"` // length of the PIT token attached to the outgoing packet
	InTok  int    `json:"in_tok,omitempty"`  // length of the PIT token the packet arrived with (unrelated to OutTok)
	Mark   bool   `json:"mark,omitempty"`    // congestion mark present
	Msg    int    `json:"msg,omitempty"`
	Frag   int    `json:"frag,omitempty"`
}

type LinkEngine struct{}

func (LinkEngine) Name() string { return "linksim" }

func (LinkEngine) Generate(prop string, r *kit.Rand, tier string) *kit.Scenario[LinkConfig, LinkOp] {
	sc := &kit.Scenario[LinkConfig, LinkOp]{}
	c := &sc.Config
	c.Frag = r.Chance(0.85)
	c.InFace = r.Chance(0.3)
	c.Threads = kit.Pick(r, []int{1, 2, 8, 32})
	c.Pop = kit.Pick(r, []string{"clean", "clean", "clean", "loss", "dup"})
	if r.Chance(0.04) {
		c.Wire = kit.Pick(r, []string{"tcp", "unix"})
	}
	switch r.Weighted([]int{3, 3, 2, 2}) {
	case 0:
		c.MTU = r.Range(128, 300)
	case 1:
		c.MTU = kit.Pick(r, []int{128, 129, 255, 256, 257, 280, 296, 576, 1280, 1452, 1500, 4470, 8000, 8799, 8800})
	case 2:
		c.MTU = r.Range(300, 2000)
	case 3:
		c.MTU = r.Range(2000, 8800)
	}
	if c.Wire == "" && c.Frag && r.Chance(0.03) {
		// a long-lived face: more than 4096 fragments (the size of the reassembly store) have passed through it
		c.MTU = r.Range(128, 420)
		per := 8800/(c.MTU-60) + 1
		c.Warm = 4200/per + r.Range(1, 12)
	}
	if c.Wire == "" && c.Frag && r.Chance(0.04) {
		c.SeqStart = kit.Pick(r, []uint64{1<<32 - 2, 1<<63 - 1, 1<<64 - 1, 1<<64 - 2, 1<<64 - 5, 1<<64 - 40}) - uint64(r.Intn(3))
	}
	nmsg := r.Range(1, 3)
	eff := c.MTU - 40
	if eff < 20 {
		eff = 20
	}
	var est []int
	for m := 0; m < nmsg; m++ {
		o := LinkOp{Op: "send", Kind: kit.Pick(r, []string{"data", "interest"})}
		switch r.Weighted([]int{4, 3, 2, 2, 1}) {
		case 0: // around multiples of the effective payload
			k := r.Range(1, 6)
			o.Size = k*eff + r.Range(-45, 12)
		case 1:
			o.Size = r.Range(40, 8800)
		case 2:
			o.Size = kit.Pick(r, []int{40, 60, 252, 253, 254, 255, 256, 257, 258, 300, 8700, 8790, 8799, 8800})
		case 3:
			o.Size = c.MTU + r.Range(-60, 20)
		case 4:
			o.Size = 8800 - r.Intn(30)
		}
		if o.Size < 40 {
			o.Size = 40
		}
		if o.Size > 8800 {
			o.Size = 8800
		}
		o.OutTok = kit.Pick(r, []int{0, 6, 6, 6, 4, 8, 16, 32})
		o.InTok = kit.Pick(r, []int{0, 0, 6, 8, 32})
		o.Mark = r.Chance(0.25)
		sc.Ops = append(sc.Ops, o)
		est = append(est, o.Size/eff+2)
	}
	// delivery schedule: a permutation of all (estimated) frames, interleaved across messages
	type fr struct{ m, f int }
	var frames []fr
	for m, n := range est {
		for f := 0; f < n; f++ {
			frames = append(frames, fr{m, f})
		}
	}
	mode := r.Intn(4) // 0 in order, 1 reversed, 2/3 shuffled
	switch mode {
	case 1:
		for i, j := 0, len(frames)-1; i < j; i, j = i+1, j-1 {
			frames[i], frames[j] = frames[j], frames[i]
		}
	case 2, 3:
		p := r.Perm(len(frames))
		nf := make([]fr, len(frames))
		for i, j := range p {
			nf[i] = frames[j]
		}
		frames = nf
	}
	for _, f := range frames {
		op := "deliver"
		if c.Pop == "loss" && r.Chance(0.15) {
			op = "drop"
		}
		sc.Ops = append(sc.Ops, LinkOp{Op: op, Msg: f.m, Frag: f.f})
		if c.Pop == "dup" && r.Chance(0.2) {
			sc.Ops = append(sc.Ops, LinkOp{Op: "dup", Msg: f.m, Frag: f.f})
		}
	}
	sc.Ops = append(sc.Ops, LinkOp{Op: "flush"})
	return sc
}

func (LinkEngine) Simplify(sc *kit.Scenario[LinkConfig, LinkOp]) []*kit.Scenario[LinkConfig, LinkOp] {
	var out []*kit.Scenario[LinkConfig, LinkOp]
	mod := func(i int, f func(o *LinkOp)) {
		ops := append([]LinkOp(nil), sc.Ops...)
		f(&ops[i])
		out = append(out, sc.WithOps(ops))
	}
	modC := func(f func(c *LinkConfig)) {
		n := sc.WithOps(sc.Ops)
		c := sc.Config
		f(&c)
		n.Config = c
		out = append(out, n)
	}
	if sc.Config.InFace {
		modC(func(c *LinkConfig) { c.InFace = false })
	}
	if sc.Config.Threads != 1 {
		modC(func(c *LinkConfig) { c.Threads = 1 })
	}
	if sc.Config.SeqStart != 0 {
		modC(func(c *LinkConfig) { c.SeqStart = 0 })
	}
	if sc.Config.Warm > 0 {
		modC(func(c *LinkConfig) { c.Warm = 0 })
		modC(func(c *LinkConfig) { c.Warm = c.Warm * 3 / 4 })
	}
	if sc.Config.Pop != "clean" {
		modC(func(c *LinkConfig) { c.Pop = "clean" })
	}
	for i, o := range sc.Ops {
		if o.Op != "send" {
			continue
		}
		if o.Mark {
			mod(i, func(o *LinkOp) { o.Mark = false })
		}
		if o.InTok != 0 {
			mod(i, func(o *LinkOp) { o.InTok = 0 })
		}
		if o.OutTok != 0 {
			mod(i, func(o *LinkOp) { o.OutTok = 0 })
		}
		if o.OutTok != 6 && o.OutTok != 0 {
			mod(i, func(o *LinkOp) { o.OutTok = 6 })
		}
		if o.Kind != "data" {
			mod(i, func(o *LinkOp) { o.Kind = "data" })
		}
	}
	return out
}

type recvThread struct {
	id  int
	got *[]delivered
}

type delivered struct {
	thread int
	isData bool
	raw    []byte
	token  []byte
	mark   *uint64
}

func (t *recvThread) String() string { return fmt.Sprintf("recv-thread-%d", t.id) }
func (t *recvThread) QueueData(p *defn.Pkt) {
	*t.got = append(*t.got, delivered{t.id, true, append([]byte(nil), p.Raw...), append([]byte(nil), p.PitToken...), p.CongestionMark})
}
func (t *recvThread) QueueInterest(p *defn.Pkt) {
	*t.got = append(*t.got, delivered{t.id, false, append([]byte(nil), p.Raw...), append([]byte(nil), p.PitToken...), p.CongestionMark})
}
func (t *recvThread) GetNumPitEntries() int { return 0 }
func (t *recvThread) GetNumCsEntries() int  { return 0 }

var linkConfigured bool

func configureFaces() {
	if linkConfigured {
		return
	}
	cfg := core.DefaultConfig()
	cfg.Core.LogLevel = "FATAL"
	core.LoadConfig(cfg, "")
	core.InitializeLogger("")
	face.Configure()
	linkConfigured = true
}

var pktCache = map[string][]byte{}

// makePacket builds a network packet whose wire size is as close to size as the
// encoding allows (exact for all but a few sizes at length-form boundaries).
func makePacket(kind string, idx int, size int) []byte {
	key := fmt.Sprintf("%s|%d|%d", kind, idx, size)
	if w, ok := pktCache[key]; ok {
		return w
	}
	name, _ := enc.NameFromStr(fmt.Sprintf("/c10/m%d", idx))
	build := func(pad int) []byte {
		body := make([]byte, pad)
		for i := range body {
			body[i] = byte(i*13 + idx)
		}
		if kind == "data" {
			ed, err := spec.Spec{}.MakeData(name, &ndn.DataConfig{ContentType: utils.IdPtr(ndn.ContentTypeBlob)}, enc.Wire{body}, sec.NewSha256Signer())
			if err != nil {
				panic("harness: MakeData: " + err.Error())
			}
			return ed.Wire.Join()
		}
		var app enc.Wire
		if pad > 0 {
			app = enc.Wire{body}
		}
		ei, err := spec.Spec{}.MakeInterest(name, &ndn.InterestConfig{Nonce: utils.IdPtr(uint64(0x1234 + idx)), CanBePrefix: pad == 0}, app, nil)
		if err != nil {
			panic("harness: MakeInterest: " + err.Error())
		}
		return ei.Wire.Join()
	}
	pad := size - len(build(0))
	if pad < 0 {
		pad = 0
	}
	var w []byte
	for tries := 0; tries < 12; tries++ {
		w = build(pad)
		if len(w) == size || pad == 0 && len(w) > size {
			break
		}
		pad += size - len(w)
		if pad < 0 {
			pad = 0
		}
	}
	if len(pktCache) > 4000 {
		pktCache = map[string][]byte{}
	}
	pktCache[key] = w
	return w
}

func tokenOf(n int, threads int, seed int) []byte {
	if n == 0 {
		return nil
	}
	b := make([]byte, n)
	for i := range b {
		b[i] = byte(seed*17 + i*3 + 1)
	}
	if n == 6 { // forwarder format: the first two bytes name a forwarding thread of the receiver
		t := seed % threads
		b[0], b[1] = byte(t>>8), byte(t)
	}
	return b
}

func (e LinkEngine) Run(t *testing.T, ctx *kit.Ctx, sc *kit.Scenario[LinkConfig, LinkOp]) *kit.Result {
	configureFaces()
	res := &kit.Result{}
	c := sc.Config
	step := 0
	fail := func(class, key, format string, a ...any) *kit.Result {
		res.Violation = &kit.Violation{Class: class, Key: key, Step: step, Detail: fmt.Sprintf(format, a...)}
		return res
	}
	// receiver
	var got []delivered
	threads := make([]dispatch.FWThread, c.Threads)
	for i := range threads {
		threads[i] = &recvThread{id: i, got: &got}
	}
	fw.Threads = make([]*fw.Thread, c.Threads)
	dispatch.InitializeFWThreads(threads)
	ropt := face.MakeNDNLPLinkServiceOptions()
	rx := face.MakeNDNLPLinkService(face.MakeSimTransport(defn.MakeNullFaceURI(), defn.MakeNullFaceURI(), defn.NonLocal, defn.PointToPoint, defn.MaxNDNPacketSize, nil), ropt)
	rx.SetFaceID(2)
	// sender
	var frames [][]byte
	sopt := face.MakeNDNLPLinkServiceOptions()
	sopt.IsFragmentationEnabled = c.Frag
	sopt.IsIncomingFaceIndicationEnabled = c.InFace
	var tx *face.NDNLPLinkService
	var wire *realWire
	if c.Wire != "" {
		wire = openRealWire(c.Wire)
		if wire == nil {
			ctx.Probe("loopback-sockets-unavailable")
		}
	}
	if wire != nil {
		defer wire.close()
		if wire.tcp != nil {
			tx = face.MakeNDNLPLinkService(wire.tcp, sopt)
		} else {
			tx = face.MakeNDNLPLinkService(wire.unix, sopt)
		}
		tx.SetFaceID(1)
		tx.SetMTU(c.MTU)
		ctx.Probe("sender-on-real-" + c.Wire + "-transport")
	} else {
		tx = face.MakeNDNLPLinkService(face.MakeSimTransport(defn.MakeNullFaceURI(), defn.MakeNullFaceURI(), defn.NonLocal, defn.PointToPoint, c.MTU,
			func(f []byte) { frames = append(frames, f) }), sopt)
		tx.SetFaceID(1)
	}

	type msg struct {
		op      LinkOp
		raw     []byte
		outTok  []byte
		frames  [][]byte
		done    []int // deliveries per frame
		dropped []bool
		fits    bool
	}
	var msgs []*msg
	nontrivial := false
	deliverFrame := func(m *msg, f int) *kit.Result {
		before := len(got)
		// the transport owns its receive buffer and uses it again for the next frame
		buf := append([]byte(nil), m.frames[f]...)
		rx.VerifHandleFrame(buf)
		for j := range buf {
			buf[j] = 0xEE
		}
		m.done[f]++
		for _, d := range got[before:] {
			// every delivery must be one of the messages sent, unaltered
			var src *msg
			for _, q := range msgs {
				if bytes.Equal(q.raw, d.raw) {
					src = q
				}
			}
			if src == nil {
				return fail("C10/delivered-packet-altered", c.Pop, "receiver delivered %d bytes that equal no packet sent (while handling frame %d of message of %d bytes, MTU %d)", len(d.raw), f, len(m.raw), c.MTU)
			}
			if !bytes.Equal(d.token, src.outTok) {
				return fail("C10/pit-token-not-preserved", "", "packet delivered with token %x, sent with %x", d.token, src.outTok)
			}
			if (d.mark != nil) != src.op.Mark || (d.mark != nil && *d.mark != 1) {
				return fail("C10/congestion-mark-not-preserved", "", "packet delivered with mark %v, sent with mark=%v", d.mark, src.op.Mark)
			}
			if d.isData != (src.op.Kind == "data") {
				return fail("C10/delivered-packet-altered", "kind", "packet kind changed in transit")
			}
		}
		return nil
	}
	if c.SeqStart != 0 && wire == nil {
		tx.VerifSetNextSequence(c.SeqStart)
		ctx.Probe("sequence-counter-near-a-power-of-two")
	}
	for w := 0; w < c.Warm && wire == nil; w++ {
		raw := makePacket("data", 1000+w%7, 8800)
		p, _, err := spec.ReadPacket(enc.NewBufferReader(append([]byte(nil), raw...)))
		if err != nil {
			panic("harness: generated packet does not parse")
		}
		frames = nil
		tx.VerifSendNow(dispatch.OutPkt{Pkt: &defn.Pkt{L3: p, Raw: append([]byte(nil), raw...), Name: p.Data.NameV, IncomingFaceID: utils.IdPtr(uint64(7))},
			PitToken: tokenOf(6, c.Threads, w), InFace: utils.IdPtr(uint64(7))})
		got = got[:0]
		for _, f := range frames {
			rx.VerifHandleFrame(append([]byte(nil), f...))
		}
		if len(got) != 1 || !bytes.Equal(got[0].raw, raw) {
			return fail("C10/packet-not-delivered-exactly-once", "warm-up", "maximum-size packet number %d on this face (%d frames, MTU %d, delivered in order): %d deliveries", w+1, len(frames), c.MTU, len(got))
		}
		ctx.ProbeN("warm-up-fragments", len(frames))
	}
	got = got[:0]
	for i, op := range sc.Ops {
		step = i
		switch op.Op {
		case "send":
			raw := makePacket(op.Kind, len(msgs), op.Size)
			p, _, err := spec.ReadPacket(enc.NewBufferReader(append([]byte(nil), raw...)))
			if err != nil {
				panic("harness: generated packet does not parse")
			}
			m := &msg{op: op, raw: raw, outTok: tokenOf(op.OutTok, c.Threads, len(msgs)+3)}
			pkt := &defn.Pkt{L3: p, Raw: append([]byte(nil), raw...), IncomingFaceID: utils.IdPtr(uint64(7))}
			if p.Data != nil {
				pkt.Name = p.Data.NameV
			} else {
				pkt.Name = p.Interest.NameV
			}
			if op.InTok > 0 {
				pkt.PitToken = tokenOf(op.InTok, 1, 99)
			}
			if op.Mark {
				pkt.CongestionMark = utils.IdPtr(uint64(1))
			}
			frames = nil
			tx.VerifSendNow(dispatch.OutPkt{Pkt: pkt, PitToken: m.outTok, InFace: utils.IdPtr(uint64(7))})
			if wire != nil {
				// a sentinel packet follows on the same (ordered, reliable) connection: what arrived before it is
				// everything the transport wrote for this message
				sraw := sentinelPacket(len(msgs))
				sp, _, _ := spec.ReadPacket(enc.NewBufferReader(append([]byte(nil), sraw...)))
				tx.VerifSendNow(dispatch.OutPkt{Pkt: &defn.Pkt{L3: sp, Raw: sraw, Name: sp.Interest.NameV}})
				frames = wire.readUntilSentinel(len(msgs))
			}
			m.frames = frames
			m.done = make([]int, len(frames))
			m.dropped = make([]bool, len(frames))
			// would the packet fit into a single frame carrying the same fields?
			single := &spec.LpPacket{Fragment: enc.Wire{raw}}
			if len(m.outTok) > 0 {
				single.PitToken = m.outTok
			}
			if c.InFace {
				single.IncomingFaceId = utils.IdPtr(uint64(7))
			}
			if op.Mark {
				single.CongestionMark = utils.IdPtr(uint64(1))
			}
			sp := &spec.Packet{LpPacket: single}
			se := spec.PacketEncoder{}
			se.Init(sp)
			singleLen := len(se.Encode(sp).Join())
			m.fits = singleLen <= c.MTU
			msgs = append(msgs, m)
			for k, f := range m.frames {
				if len(f) > c.MTU {
					return fail("C10/frame-exceeds-mtu", fmt.Sprintf("frag=%v/outtok=%d/intok=%d/mark=%v/inface=%v", c.Frag, op.OutTok, op.InTok, op.Mark, c.InFace),
						"frame %d of %d is %d bytes, MTU %d (packet %d bytes)", k, len(m.frames), len(f), c.MTU, len(raw))
				}
			}
			if m.fits && len(m.frames) != 1 {
				return fail("C10/fitting-packet-not-single-frame", fmt.Sprintf("frag=%v", c.Frag), "packet of %d bytes fits a %d-byte frame (MTU %d) but was sent as %d frames", len(raw), singleLen, c.MTU, len(m.frames))
			}
			if !m.fits && !c.Frag && len(m.frames) != 0 {
				return fail("C10/oversize-packet-not-dropped", "", "fragmentation is off, packet of %d bytes needs %d > MTU %d, yet %d frames were sent", len(raw), singleLen, c.MTU, len(m.frames))
			}
			if len(m.frames) >= 2 {
				nontrivial = true
				ctx.Probe("fragmented")
			}
			if singleLen >= c.MTU-2 && singleLen <= c.MTU+2 {
				nontrivial = true
				ctx.Probe("mtu-boundary")
			}
		case "deliver", "dup":
			if op.Msg < len(msgs) && op.Frag < len(msgs[op.Msg].frames) {
				m := msgs[op.Msg]
				if op.Op == "deliver" && m.done[op.Frag] > 0 {
					continue
				}
				if op.Op == "dup" {
					ctx.Fault("duplicate-frame")
				}
				if r := deliverFrame(m, op.Frag); r != nil {
					return r
				}
			}
		case "drop":
			if op.Msg < len(msgs) && op.Frag < len(msgs[op.Msg].frames) && msgs[op.Msg].done[op.Frag] == 0 {
				msgs[op.Msg].dropped[op.Frag] = true
				ctx.Fault("drop-frame")
			}
		case "flush":
			for _, m := range msgs {
				for f := range m.frames {
					if m.done[f] == 0 && !m.dropped[f] {
						if r := deliverFrame(m, f); r != nil {
							return r
						}
					}
				}
			}
		}
		res.Steps++
	}
	// end-of-run accounting
	for mi, m := range msgs {
		n := 0
		for _, d := range got {
			if bytes.Equal(d.raw, m.raw) {
				n++
			}
		}
		complete := len(m.frames) > 0
		for f := range m.frames {
			if m.done[f] == 0 {
				complete = false
			}
		}
		switch {
		case c.Pop == "clean" && complete && n != 1:
			// identical raw bytes in two messages cannot happen: names differ per message
			return fail("C10/packet-not-delivered-exactly-once", fmt.Sprintf("frames=%d", min(len(m.frames), 3)), "message %d (%d bytes, %d frames, MTU %d) was delivered %d times after all its frames arrived", mi, len(m.raw), len(m.frames), c.MTU, n)
		case c.Pop == "loss" && !complete && n != 0:
			return fail("C10/partial-message-delivered", "", "message %d delivered although frames were lost", mi)
		case c.Pop == "loss" && complete && n != 1:
			return fail("C10/packet-not-delivered-exactly-once", "loss", "message %d delivered %d times although all its frames arrived", mi, n)
		case c.Pop == "dup" && complete && n < 1:
			return fail("C10/packet-not-delivered-exactly-once", "dup", "message %d never delivered although all its frames arrived", mi)
		}
	}
	pm, pf := rx.VerifPartialStoreSize()
	d := kit.NewDigest().I(c.MTU).I(len(msgs)).I(len(got)).I(pm).I(pf)
	for _, m := range msgs {
		d.I(len(m.raw)).I(len(m.frames))
	}
	res.Digest = d.Sum()
	ctx.State(res.Digest)
	res.NonTrivial = nontrivial
	return res
}

// ---------------------------------------------------------------- real socket under the sender

// realWire is a loopback TCP or Unix-stream connection: one end belongs to the repository's real transport, the
// other to the harness. TCP and Unix streams are reliable and ordered, so what the harness reads up to the sentinel
// is exactly what the transport wrote - no timing enters the verdict.
type realWire struct {
	tcp     *face.UnicastTCPTransport
	unix    *face.UnixStreamTransport
	udp     *face.UnicastUDPTransport
	udpPeer *net.UDPConn // the harness end of the UDP "link"
	udpDst  *net.UDPAddr // the transport's socket
	peer    net.Conn
	buf     []byte
	cleanup func()
}

var wireSeq int

func openRealWire(kind string) *realWire {
	wireSeq++
	w := &realWire{}
	switch kind {
	case "tcp":
		ln, err := net.Listen("tcp4", "127.0.0.1:0")
		if err != nil {
			return nil
		}
		defer ln.Close()
		peer, err := net.Dial("tcp4", ln.Addr().String())
		if err != nil {
			return nil
		}
		srv, err := ln.Accept()
		if err != nil {
			peer.Close()
			return nil
		}
		tr, err := face.AcceptUnicastTCPTransport(srv, nil, face.PersistencyPersistent)
		if err != nil {
			panic("harness: AcceptUnicastTCPTransport: " + err.Error())
		}
		w.tcp, w.peer = tr, peer
		w.cleanup = func() { tr.CloseConn(); peer.Close() }
	case "unix":
		path := filepath.Join(os.TempDir(), fmt.Sprintf("verif-%d-%d.sock", os.Getpid(), wireSeq))
		os.Remove(path)
		ln, err := net.Listen("unix", path)
		if err != nil {
			return nil
		}
		defer ln.Close()
		peer, err := net.Dial("unix", path)
		if err != nil {
			os.Remove(path)
			return nil
		}
		srv, err := ln.Accept()
		if err != nil {
			peer.Close()
			os.Remove(path)
			return nil
		}
		tr, err := face.MakeUnixStreamTransport(defn.MakeFDFaceURI(1000+wireSeq), defn.MakeUnixFaceURI(path), srv)
		if err != nil {
			panic("harness: MakeUnixStreamTransport: " + err.Error())
		}
		w.unix, w.peer = tr, peer
		w.cleanup = func() { tr.Close(); peer.Close(); os.Remove(path) }
	case "udp":
		lo := net.ParseIP("127.0.0.1")
		pc, err := net.ListenUDP("udp4", &net.UDPAddr{IP: lo})
		if err != nil {
			return nil
		}
		tmp, err := net.ListenUDP("udp4", &net.UDPAddr{IP: lo}) // a free port for the transport's end
		if err != nil {
			pc.Close()
			return nil
		}
		lp := tmp.LocalAddr().(*net.UDPAddr).Port
		tmp.Close()
		tr, err := face.MakeUnicastUDPTransport(defn.MakeUDPFaceURI(4, "127.0.0.1", uint16(pc.LocalAddr().(*net.UDPAddr).Port)),
			defn.MakeUDPFaceURI(4, "127.0.0.1", uint16(lp)), face.PersistencyPersistent)
		if err != nil {
			pc.Close()
			return nil // the port was taken in the meantime
		}
		w.udp, w.udpPeer, w.udpDst = tr, pc, &net.UDPAddr{IP: lo, Port: lp}
		w.cleanup = func() { tr.Close(); pc.Close() }
	default:
		return nil
	}
	return w
}

func (w *realWire) close() { w.cleanup() }

func sentinelPacket(k int) []byte {
	n, _ := enc.NameFromStr(fmt.Sprintf("/verif-sentinel/%d", k))
	ei, err := spec.Spec{}.MakeInterest(n, &ndn.InterestConfig{Nonce: utils.IdPtr(uint64(777))}, nil, nil)
	if err != nil {
		panic("harness: sentinel: " + err.Error())
	}
	return ei.Wire.Join()
}

// readUntilSentinel returns the TLV blocks (frames) read from the harness end of the socket up to, not including,
// the sentinel Interest. Not seeing the sentinel within 30 s of real time is harness trouble (exit 2), never a verdict.
func (w *realWire) readUntilSentinel(k int) [][]byte {
	want := fmt.Sprintf("/verif-sentinel/%d", k)
	var frames [][]byte
	w.peer.SetReadDeadline(time.Now().Add(30 * time.Second))
	tmp := make([]byte, 65536)
	for {
		// complete blocks in the buffer
		for {
			_, tl, ok := readVar(w.buf)
			if !ok {
				break
			}
			l, ll, ok := readVar(w.buf[tl:])
			if !ok || uint64(len(w.buf)-tl-ll) < l {
				break
			}
			blk := append([]byte(nil), w.buf[:tl+ll+int(l)]...)
			w.buf = w.buf[tl+ll+int(l):]
			if p, _, err := spec.ReadPacket(enc.NewBufferReader(append([]byte(nil), blk...))); err == nil {
				var in *spec.Interest
				if p.Interest != nil {
					in = p.Interest
				} else if p.LpPacket != nil && p.LpPacket.FragCount == nil {
					if q, _, err := spec.ReadPacket(enc.NewWireReader(p.LpPacket.Fragment)); err == nil {
						in = q.Interest
					}
				}
				if in != nil && in.NameV.String() == want {
					return frames
				}
			}
			frames = append(frames, blk)
		}
		n, err := w.peer.Read(tmp)
		w.buf = append(w.buf, tmp[:n]...)
		if err != nil && n == 0 {
			panic("harness: socket closed or timed out before the sentinel packet arrived: " + err.Error())
		}
	}
}
