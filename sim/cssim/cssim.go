// Package cssim drives one Content Store (the CS half of fw/table's PitCsTree with its LRU policy) through its table
// interface - insertions, refreshes, exact and prefix lookups with both flags, capacity changes - on a simulated
// clock, against a reference cache. It is the table-level part of C07: inside the forwarder a PIT entry for the
// Interest's name always exists by the time the cache is consulted, so some lookup paths (a name that is no node of
// the name tree) can only be reached here.
package cssim

import (
	"bytes"
	"fmt"
	"sort"
	"strings"
	"testing"
	"testing/synctest"
	"time"
	"verifsim/facesim"

	"github.com/named-data/ndnd/fw/core"
	"github.com/named-data/ndnd/fw/table"
	enc "github.com/named-data/ndnd/std/encoding"
	"github.com/named-data/ndnd/std/ndn"
	spec "github.com/named-data/ndnd/std/ndn/spec_2022"
	sec "github.com/named-data/ndnd/std/security"
	"github.com/named-data/ndnd/std/utils"

	"verifsim/kit"
)

type Config struct {
	Cap int `json:"cap"`
}

type Op struct {
	Op      string `json:"op"` // insert lookup advance cap pit
	Name    string `json:"name,omitempty"`
	FreshMs int    `json:"fresh_ms,omitempty"` // insert: -1 = no FreshnessPeriod; -2..-6 = a period of 9223372036855 .. 2^64-1 ms
	Var     int    `json:"var,omitempty"`      // insert: content variant
	CBP     bool   `json:"cbp,omitempty"`
	MBF     bool   `json:"mbf,omitempty"`
	Ms      int    `json:"ms,omitempty"`
	Cap     int    `json:"cap,omitempty"`
}

type Engine struct{}

func (Engine) Name() string { return "cssim" }

var comps = []string{"a", "b", "c"}

func genName(r *kit.Rand, pool []string) string {
	if len(pool) > 0 && r.Chance(0.65) {
		n := kit.Pick(r, pool)
		switch r.Intn(5) {
		case 0, 1:
			return n
		case 2:
			return n + "/" + kit.Pick(r, comps)
		case 3:
			return n + "/" + kit.Pick(r, comps) + "/" + kit.Pick(r, comps)
		default:
			if i := strings.LastIndex(n, "/"); i > 0 {
				return n[:i]
			}
			return "/"
		}
	}
	s := ""
	for i, d := 0, r.Range(1, 4); i < d; i++ {
		s += "/" + kit.Pick(r, comps)
	}
	return s
}

func (Engine) Generate(prop string, r *kit.Rand, tier string) *kit.Scenario[Config, Op] {
	sc := &kit.Scenario[Config, Op]{}
	sc.Config.Cap = r.Weighted([]int{1, 3, 3, 3, 2, 2, 1})
	if r.Chance(0.1) {
		sc.Config.Cap = 1024
	}
	var pool []string
	for i, n := 0, r.Range(4, 50); i < n; i++ {
		switch r.Weighted([]int{40, 35, 14, 5, 6}) {
		case 0:
			o := Op{Op: "insert", Name: genName(r, pool), FreshMs: kit.Pick(r, []int{-1, 0, 1, 50, 200, 200, 1000, 5000}), Var: r.Intn(3)}
			if r.Chance(0.03) {
				o.FreshMs = -2 - r.Intn(5) // a huge period (see mkData)
			}
			for o.Name == "/" {
				o.Name = genName(r, pool)
			}
			pool = append(pool, o.Name)
			sc.Ops = append(sc.Ops, o)
		case 1:
			sc.Ops = append(sc.Ops, Op{Op: "lookup", Name: genName(r, pool), CBP: r.Chance(0.45), MBF: r.Chance(0.5)})
		case 2:
			sc.Ops = append(sc.Ops, Op{Op: "advance", Ms: kit.Pick(r, []int{0, 1, 49, 50, 51, 199, 200, 201, 999, 1000, 1001, 6000})})
		case 3:
			sc.Ops = append(sc.Ops, Op{Op: "cap", Cap: r.Range(0, 6)})
		case 4:
			// a pending Interest makes name-tree nodes of its own (and nothing else here)
			sc.Ops = append(sc.Ops, Op{Op: "pit", Name: genName(r, pool), CBP: r.Bool()})
		}
	}
	return sc
}

func (Engine) Simplify(sc *kit.Scenario[Config, Op]) []*kit.Scenario[Config, Op] {
	var out []*kit.Scenario[Config, Op]
	if sc.Config.Cap > 0 {
		n := sc.WithOps(sc.Ops)
		n.Config.Cap = sc.Config.Cap - 1
		out = append(out, n)
	}
	for i, o := range sc.Ops {
		mod := func(f func(o *Op)) {
			ops := append([]Op(nil), sc.Ops...)
			f(&ops[i])
			out = append(out, sc.WithOps(ops))
		}
		if o.Var != 0 {
			mod(func(o *Op) { o.Var = 0 })
		}
		if o.Op == "insert" && o.FreshMs != -1 {
			mod(func(o *Op) { o.FreshMs = -1 })
		}
		if o.MBF {
			mod(func(o *Op) { o.MBF = false })
		}
		if o.Op == "advance" && o.Ms > 1 {
			mod(func(o *Op) { o.Ms = o.Ms / 2 })
		}
	}
	return out
}

var configured bool

func mkName(s string) enc.Name {
	if s == "/" || s == "" {
		return enc.Name{}
	}
	n, err := enc.NameFromStr(s)
	if err != nil {
		panic("harness: name " + s)
	}
	return n
}

func isPrefix(p, n string) bool {
	if p == "/" {
		return true
	}
	return n == p || strings.HasPrefix(n, p+"/")
}

type entry struct {
	wire    []byte
	staleAt time.Duration
	touched int // recency: larger = more recent
}

func (e Engine) Run(t *testing.T, ctx *kit.Ctx, sc *kit.Scenario[Config, Op]) *kit.Result {
	res := &kit.Result{}
	var pan any
	var site string
	synctest.Test(t, func(t *testing.T) {
		defer func() {
			if p := recover(); p != nil {
				pan, site = p, kit.PanicSite()
			}
		}()
		e.run(ctx, sc, res)
	})
	if pan != nil {
		if strings.HasPrefix(site, "harness:") {
			panic(pan)
		}
		res.Violation = &kit.Violation{Class: "C07/panic", Key: site, Step: res.Steps, Detail: fmt.Sprint(pan)}
	}
	return res
}

func (Engine) run(ctx *kit.Ctx, sc *kit.Scenario[Config, Op], res *kit.Result) {
	if !configured {
		cfg := core.DefaultConfig()
		cfg.Core.LogLevel = "FATAL"
		core.LoadConfig(cfg, "")
		core.InitializeLogger("")
		configured = true
	}
	table.VerifResetGlobals()
	table.Configure()
	table.VerifSetCsFlags(true, true)
	table.SetCsCapacity(sc.Config.Cap)
	pcs := table.NewPitCS(func(table.PitEntry) {})
	defer func() {
		// the table's first tick signal (there is no forwarding thread to read it here): let it fire, take it
		time.Sleep(time.Second)
		synctest.Wait()
		select {
		case <-pcs.UpdateTimer():
		default:
		}
		synctest.Wait()
	}()
	start := time.Now()
	now := func() time.Duration { return time.Since(start) }
	signer := sec.NewSha256Signer()
	model := map[string]*entry{}
	capacity := sc.Config.Cap
	clock := 0
	evictions, staleMisses, prefixHits, nonNodeLookups := 0, 0, 0, 0
	fail := func(step int, class, key, format string, a ...any) {
		if res.Violation == nil {
			res.Violation = &kit.Violation{Class: class, Key: key, Step: step, Detail: fmt.Sprintf(format, a...)}
		}
	}
	mkData := func(name string, freshMs, v int) (*spec.Data, []byte) {
		cfg := &ndn.DataConfig{ContentType: utils.IdPtr(ndn.ContentTypeBlob)}
		hugeMs := uint64(0)
		if freshMs <= -2 {
			hugeMs = []uint64{9223372036855, 1 << 53, 1<<63 - 1, 1 << 63, 1<<64 - 1}[(-freshMs-2)%5]
			freshMs = 3600000
		}
		if freshMs >= 0 {
			cfg.Freshness = utils.IdPtr(time.Duration(freshMs) * time.Millisecond)
		}
		ed, err := spec.Spec{}.MakeData(mkName(name), cfg, enc.Wire{[]byte(fmt.Sprintf("variant-%d", v))}, signer)
		if err != nil {
			panic("harness: MakeData: " + err.Error())
		}
		w := ed.Wire.Join()
		if hugeMs != 0 {
			// the FreshnessPeriod rewritten on the wire (every enclosing length re-encoded, digest signature
			// recomputed): a period that the packet format allows and a nanosecond count in 63 bits cannot hold
			pat := []byte{0x19, 8, byte(hugeMs >> 56), byte(hugeMs >> 48), byte(hugeMs >> 40), byte(hugeMs >> 32), byte(hugeMs >> 24), byte(hugeMs >> 16), byte(hugeMs >> 8), byte(hugeMs)}
			done := false
			for at := 0; at < 24 && !done; at++ {
				if g := facesim.Mutate(w, "setnum+fix", at, hugeMs); bytes.Contains(g, pat) {
					w, done = g, true
				}
			}
			if !done {
				panic("harness: FreshnessPeriod not found in the encoded Data")
			}
		}
		p, _, err := spec.ReadPacket(enc.NewBufferReader(append([]byte(nil), w...)))
		if err != nil || p.Data == nil {
			panic("harness: ReadPacket")
		}
		return p.Data, w
	}
	evict := func() {
		for len(model) > capacity {
			victim, best := "", 1<<62
			for n, en := range model {
				if en.touched < best {
					victim, best = n, en.touched
				}
			}
			delete(model, victim)
			evictions++
		}
	}
	dg := kit.NewDigest()
	for i, o := range sc.Ops {
		res.Steps = i
		switch o.Op {
		case "insert":
			d, w := mkData(o.Name, o.FreshMs, o.Var)
			feed := append([]byte(nil), w...)
			pcs.InsertData(d, feed)
			for j := range feed { // the caller's buffer is its own again
				feed[j] = 0xEE
			}
			clock++
			stale := now()
			if o.FreshMs > 0 {
				stale += time.Duration(o.FreshMs) * time.Millisecond
			}
			if o.FreshMs <= -2 {
				stale = 1 << 62 // fresh for longer than any run lasts
				ctx.Probe("freshness-period-beyond-63-bit-nanoseconds")
			}
			if en := model[o.Name]; en != nil {
				en.wire, en.staleAt, en.touched = w, stale, clock
			} else {
				model[o.Name] = &entry{wire: w, staleAt: stale, touched: clock}
				evict()
			}
		case "lookup":
			cfg := &ndn.InterestConfig{CanBePrefix: o.CBP, MustBeFresh: o.MBF, Nonce: utils.IdPtr(uint64(1000 + i))}
			ei, err := spec.Spec{}.MakeInterest(mkName(o.Name), cfg, nil, nil)
			if err != nil {
				panic("harness: MakeInterest: " + err.Error())
			}
			p, _, err := spec.ReadPacket(enc.NewBufferReader(ei.Wire.Join()))
			if err != nil || p.Interest == nil {
				panic("harness: ReadPacket(Interest)")
			}
			got := pcs.FindMatchingDataFromCS(p.Interest)
			acceptable := func(n string) bool {
				en := model[n]
				if en == nil {
					return false
				}
				if n != o.Name && !(o.CBP && isPrefix(o.Name, n)) {
					return false
				}
				return !o.MBF || now() < en.staleAt
			}
			if got != nil {
				dd, wire, err := got.Copy()
				if err != nil || dd == nil {
					fail(i, "C07/returned-entry-unreadable", "", "lookup %s: returned entry cannot be copied: %v", o.Name, err)
					break
				}
				gn := dd.Name().String()
				if dd.Name().String() == "" || len(dd.Name()) == 0 {
					gn = "/"
				}
				switch {
				case model[gn] == nil:
					fail(i, "C07/answered-with-uncached-or-evicted-data", "", "lookup %s (cbp=%v mbf=%v) returned %s, which the reference cache (capacity %d) does not hold", o.Name, o.CBP, o.MBF, gn, capacity)
				case !acceptable(gn):
					why := "its name neither equals the Interest name nor extends it under CanBePrefix"
					if gn == o.Name || (o.CBP && isPrefix(o.Name, gn)) {
						why = fmt.Sprintf("it went stale at %v, now %v", model[gn].staleAt, now())
					}
					fail(i, "C07/answered-with-unacceptable-data", fmt.Sprintf("cbp=%v/mbf=%v", o.CBP, o.MBF), "lookup %s (cbp=%v mbf=%v) returned %s: %s", o.Name, o.CBP, o.MBF, gn, why)
				case string(wire) != string(model[gn].wire):
					fail(i, "C07/returned-bytes-differ", "", "lookup %s returned %d bytes for %s that differ from the packet most recently inserted under that name", o.Name, len(wire), gn)
				}
				if gn == o.Name && model[gn] != nil {
					if !o.CBP { // an exact-name hit makes the entry the most recently used one
						clock++
						model[gn].touched = clock
					}
				} else {
					prefixHits++
				}
			} else {
				if acceptable(o.Name) {
					fail(i, "C07/exact-cached-fresh-not-found", fmt.Sprintf("cbp=%v", o.CBP), "lookup %s (cbp=%v mbf=%v): nothing returned although %s is cached, unevicted and acceptable", o.Name, o.CBP, o.MBF, o.Name)
				}
				if en := model[o.Name]; en != nil && o.MBF && now() >= en.staleAt {
					staleMisses++
				}
			}
			if _, isNode := model[o.Name]; !isNode {
				nonNodeLookups++
			}
		case "advance":
			time.Sleep(time.Duration(o.Ms) * time.Millisecond)
			synctest.Wait()
		case "cap":
			table.SetCsCapacity(o.Cap)
			capacity = o.Cap
			// (a lowered capacity takes effect at the next insertion of a new name: that is what the statement says)
		case "pit":
			cfg := &ndn.InterestConfig{CanBePrefix: o.CBP, Nonce: utils.IdPtr(uint64(5000 + i))}
			ei, _ := spec.Spec{}.MakeInterest(mkName(o.Name), cfg, nil, nil)
			p, _, err := spec.ReadPacket(enc.NewBufferReader(ei.Wire.Join()))
			if err == nil && p.Interest != nil && len(p.Interest.NameV) > 0 {
				pcs.InsertInterest(p.Interest, nil, 7)
			}
		}
		if res.Violation != nil {
			return
		}
		// the cached names are exactly the reference cache's (after an insertion of a new name also within capacity)
		var got []string
		for _, n := range pcs.VerifCsNames() {
			s := n.String()
			if len(n) == 0 {
				s = "/"
			}
			got = append(got, s)
		}
		sort.Strings(got)
		var want []string
		for n := range model {
			want = append(want, n)
		}
		sort.Strings(want)
		if o.Op != "cap" && strings.Join(got, " ") != strings.Join(want, " ") {
			fail(i, "C07/cache-contents-differ-from-lru-model", "after-"+o.Op, "cached names %v, LRU reference (capacity %d) holds %v", got, capacity, want)
			return
		}
		if o.Op == "cap" && len(model) > capacity {
			// entries beyond the new capacity stay until the next insertion of a new name; the reference keeps them too
		}
		if pcs.CsSize() != len(got) {
			fail(i, "C07/cs-size-misreported", "", "CsSize()=%d, cached packets %d", pcs.CsSize(), len(got))
			return
		}
		sd := kit.NewDigest().S(strings.Join(got, " ")).I(capacity)
		ctx.State(sd.Sum())
		dg.U(sd.Sum())
	}
	res.Steps = len(sc.Ops)
	res.Digest = dg.Sum()
	res.SimNanos = int64(now())
	res.NonTrivial = evictions >= 1 && (staleMisses >= 1 || prefixHits >= 1)
	if nonNodeLookups > 0 {
		ctx.Probe("lookup-for-a-name-that-holds-no-packet")
	}
	if prefixHits > 0 {
		ctx.Probe("prefix-lookup-answered-with-a-longer-name")
	}
	if staleMisses > 0 {
		ctx.Probe("stale-packet-withheld-from-must-be-fresh")
	}
	if evictions > 0 {
		ctx.Probe("eviction")
	}
}
