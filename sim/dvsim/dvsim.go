// Package dvsim runs N real routing daemons (dv.Router on real application
// engines) in one synctest bubble. The forwarders between them are one simulated
// hub that answers each daemon's management commands as NFD would (recording
// the register/unregister stream), carries one-hop sync Interests to link
// neighbours with the incoming-face indication, and routes advertisement and
// prefix-data Interests to the named router and the Data back, under a
// scenario-chosen delivery order with loss, duplication, delay, link and router
// failures. Properties C18 and C19.
package dvsim

import (
	"bytes"
	"fmt"
	"os"
	"runtime"
	"sort"
	"strings"
	"sync"
	"sync/atomic"
	"testing"
	"testing/synctest"
	"time"

	dvconfig "github.com/named-data/ndnd/dv/config"
	"github.com/named-data/ndnd/dv/dv"
	dvtable "github.com/named-data/ndnd/dv/table"
	dvtlv "github.com/named-data/ndnd/dv/tlv"
	enc "github.com/named-data/ndnd/std/encoding"
	basic "github.com/named-data/ndnd/std/engine/basic"
	"github.com/named-data/ndnd/std/log"
	"github.com/named-data/ndnd/std/ndn"
	mgmt "github.com/named-data/ndnd/std/ndn/mgmt_2022"
	spec "github.com/named-data/ndnd/std/ndn/spec_2022"
	sec "github.com/named-data/ndnd/std/security"
	"github.com/named-data/ndnd/std/utils"

	"verifsim/facesim"
	"verifsim/kit"
)

type Config struct {
	N        int      `json:"n"`
	Links    [][2]int `json:"links"`
	AdvertMs int      `json:"advert_ms"`
	DeadMs   int      `json:"dead_ms"`
	Late     []int    `json:"late,omitempty"` // routers that are started only by a "restart" op
	// Passive lists directed pairs {i, j}: router i has no neighbour entry for j in its configuration (the link is
	// configured at j's end only). i then hears j on the active sync prefix and answers on the passive one, along
	// the route it registers for the face it heard j on; j hears i on the passive prefix only.
	Passive [][2]int `json:"passive,omitempty"`
}

type Op struct {
	Op string `json:"op"` // tick deadcheck deliver drop dup advance linkdown linkup crash restart announce withdraw reface mgmtfail hold release settle
	// hold / release: the table-update goroutines of router R that reach the named point ("rib-update", "fib-update")
	// wait there until released - the scheduler's choice of when a spawned goroutine runs
	Point  string `json:"point,omitempty"`
	R      int    `json:"r,omitempty"`
	A      int    `json:"a,omitempty"`
	B      int    `json:"b,omitempty"`
	K      int    `json:"k,omitempty"`
	Ms     int    `json:"ms,omitempty"`
	Prefix string `json:"prefix,omitempty"`
	Count  int    `json:"count,omitempty"` // announce: repeat with numbered prefixes (log gaps > 100)
	// corrupt: the K-th in-flight message is altered in transit (C04 runs only)
	Mut string `json:"mut,omitempty"`
	At  int    `json:"at,omitempty"`
	Val uint64 `json:"val,omitempty"`
}

type Engine struct{}

func (Engine) Name() string { return "dvsim" }

var prefixes = []string{"/app/a", "/app/b", "/app/c", "/svc/x"}

var connectedCache = map[int][]int{}

// connectedGraphs lists the edge masks (pairs in lexicographic order) of all labelled connected graphs on n nodes.
func connectedGraphs(n int) []int {
	if g, ok := connectedCache[n]; ok {
		return g
	}
	var pairs [][2]int
	for a := 0; a < n; a++ {
		for b := a + 1; b < n; b++ {
			pairs = append(pairs, [2]int{a, b})
		}
	}
	var out []int
	for mask := 0; mask < 1<<len(pairs); mask++ {
		seen := 1
		for changed := true; changed; {
			changed = false
			for i, p := range pairs {
				if mask&(1<<i) == 0 {
					continue
				}
				ia, ib := seen&(1<<p[0]) != 0, seen&(1<<p[1]) != 0
				if ia != ib {
					seen |= 1<<p[0] | 1<<p[1]
					changed = true
				}
			}
		}
		if seen == 1<<n-1 {
			out = append(out, mask)
		}
	}
	connectedCache[n] = out
	return out
}

func topologyID(n int, links [][2]int) string {
	mask, bit := 0, 0
	for a := 0; a < n; a++ {
		for b := a + 1; b < n; b++ {
			for _, l := range links {
				if (l[0] == a && l[1] == b) || (l[0] == b && l[1] == a) {
					mask |= 1 << bit
				}
			}
			bit++
		}
	}
	return fmt.Sprintf("n%d-%x", n, mask)
}

func (Engine) Generate(prop string, r *kit.Rand, tier string) *kit.Scenario[Config, Op] {
	sc := &kit.Scenario[Config, Op]{}
	c := &sc.Config
	c.N = r.Weighted([]int{0, 0, 2, 4, 4, 3, 2})
	if c.N < 2 {
		c.N = 3
	}
	// random connected graph: spanning tree plus extra edges
	perm := r.Perm(c.N)
	has := map[[2]int]bool{}
	add := func(a, b int) {
		if a > b {
			a, b = b, a
		}
		if a != b && !has[[2]int{a, b}] {
			has[[2]int{a, b}] = true
			c.Links = append(c.Links, [2]int{a, b})
		}
	}
	for i := 1; i < c.N; i++ {
		add(perm[i], perm[r.Intn(i)])
	}
	extra := r.Intn(c.N)
	for i := 0; i < extra; i++ {
		add(r.Intn(c.N), r.Intn(c.N))
	}
	// C18: half of the runs on <= 5 routers draw the topology uniformly from ALL labelled connected graphs of that
	// size (1 + 4 + 38 + 728 = 771 graphs), so that a batch covers the small topologies exhaustively
	if prop == "C18" && c.N <= 5 && r.Chance(0.5) {
		gs := connectedGraphs(c.N)
		mask := gs[r.Intn(len(gs))]
		c.Links = nil
		for k := range has {
			delete(has, k)
		}
		bit := 0
		for a := 0; a < c.N; a++ {
			for b := a + 1; b < c.N; b++ {
				if mask&(1<<bit) != 0 {
					add(a, b)
				}
				bit++
			}
		}
	}
	// C18: often a topology with many equal-cost paths (two routers joined through all the others)
	multipath := prop == "C18" && c.N >= 5 && r.Chance(0.35)
	if multipath {
		c.Links = nil
		for k := range has {
			delete(has, k)
		}
		for mid := 2; mid < c.N; mid++ {
			add(0, mid)
			add(1, mid)
		}
	}
	// C18: rings (every destination has two disjoint paths, and losing one link re-routes half of them the long way)
	ring := prop == "C18" && c.N >= 4 && !multipath && r.Chance(0.2)
	if ring {
		c.Links = nil
		for k := range has {
			delete(has, k)
		}
		for i := 0; i < c.N; i++ {
			add(i, (i+1)%c.N)
		}
	}
	c.AdvertMs = kit.Pick(r, []int{1000, 2000, 5000})
	c.DeadMs = c.AdvertMs * kit.Pick(r, []int{2, 3, 6})
	if prop == "C19" && r.Chance(0.3) && c.N > 2 {
		c.Late = []int{r.Intn(c.N)}
	}
	if r.Chance(0.4) {
		// links configured at one end only (any pair: links that come up later included)
		for a := 0; a < c.N; a++ {
			for b := a + 1; b < c.N; b++ {
				if r.Chance(0.4) {
					if r.Bool() {
						c.Passive = append(c.Passive, [2]int{a, b})
					} else {
						c.Passive = append(c.Passive, [2]int{b, a})
					}
				}
			}
		}
	}
	nops := r.Range(5, 80)
	if r.Chance(0.4) {
		nops = r.Range(3, 20)
	}
	wTick, wDeliver, wDrop, wDup, wAdv, wLink, wCrash, wPfx, wReface, wDead, wMgmt, wCorrupt := 14, 40, 4, 3, 10, 4, 2, 0, 0, 4, 0, 0
	if prop == "C19" {
		wPfx, wReface, wMgmt = 12, 2, 2
	}
	wHold, wSendErr := 3, 2
	if prop == "C04" {
		wHold = 0
	}
	held := map[string]bool{}
	if prop == "C04" {
		// a hostile or faulty link: routing, prefix-sync and advertisement packets are corrupted in transit
		wPfx, wCorrupt, wCrash, wLink = 10, 25, 1, 2
	}
	down := map[[2]int]bool{}
	crashed := map[int]bool{}
	for _, l := range c.Late {
		crashed[l] = true
	}
	// C18: often let the network converge first, then change the topology (a neighbour's advertisement then changes
	// in next hop or second-best cost only, for some destinations)
	if prop == "C18" && (ring || r.Chance(0.25)) {
		for round := 0; round < 4; round++ {
			for x := 0; x < c.N; x++ {
				sc.Ops = append(sc.Ops, Op{Op: "tick", R: x})
			}
			for d := 0; d < 8*c.N; d++ {
				sc.Ops = append(sc.Ops, Op{Op: "deliver", K: 0})
			}
			sc.Ops = append(sc.Ops, Op{Op: "advance", Ms: 100})
		}
		wLink = 10
	}
	// C19: often make one prefix multi-homed early on, then let the network learn about it
	if prop == "C19" && c.N >= 3 && r.Chance(0.5) {
		p := kit.Pick(r, prefixes)
		k := r.Range(2, min(3, c.N))
		for _, x := range r.Perm(c.N)[:k] {
			sc.Ops = append(sc.Ops, Op{Op: "announce", R: x, Prefix: p})
		}
		// a quiet convergence phase so that later faults hit an installed multi-homed prefix
		if r.Chance(0.7) {
			for round := 0; round < 3; round++ {
				for x := 0; x < c.N; x++ {
					sc.Ops = append(sc.Ops, Op{Op: "tick", R: x})
				}
				for d := 0; d < 6*c.N; d++ {
					sc.Ops = append(sc.Ops, Op{Op: "deliver", K: 0})
				}
				sc.Ops = append(sc.Ops, Op{Op: "advance", Ms: 100})
			}
			wReface, wLink = 8, 8
			// a router with a single neighbour sees every remote announcer through one face:
			// change that face's id (or flap the link) while the multi-homed prefix is installed
			deg := map[int][]int{}
			for _, l := range c.Links {
				deg[l[0]] = append(deg[l[0]], l[1])
				deg[l[1]] = append(deg[l[1]], l[0])
			}
			for x := 0; x < c.N; x++ {
				if len(deg[x]) == 1 && r.Chance(0.6) {
					if r.Chance(0.7) {
						sc.Ops = append(sc.Ops, Op{Op: "reface", A: x, B: deg[x][0]})
					} else {
						sc.Ops = append(sc.Ops, Op{Op: "linkdown", A: x, B: deg[x][0]}, Op{Op: "advance", Ms: c.DeadMs + 1000},
							Op{Op: "deadcheck", R: x}, Op{Op: "linkup", A: x, B: deg[x][0]})
					}
					for round := 0; round < 2; round++ {
						for y := 0; y < c.N; y++ {
							sc.Ops = append(sc.Ops, Op{Op: "tick", R: y})
						}
						for d := 0; d < 5*c.N; d++ {
							sc.Ops = append(sc.Ops, Op{Op: "deliver", K: 0})
						}
						sc.Ops = append(sc.Ops, Op{Op: "advance", Ms: 100})
					}
					break
				}
			}
		}
	}
	if multipath {
		// converge, then lose one of the equal-cost paths, then let the normal op mix run
		for round := 0; round < 3; round++ {
			for x := 0; x < c.N; x++ {
				sc.Ops = append(sc.Ops, Op{Op: "tick", R: x})
			}
			for d := 0; d < 8*c.N; d++ {
				sc.Ops = append(sc.Ops, Op{Op: "deliver", K: r.Intn(4)})
			}
			sc.Ops = append(sc.Ops, Op{Op: "advance", Ms: 100})
		}
		l := kit.Pick(r, c.Links)
		sc.Ops = append(sc.Ops, Op{Op: "linkdown", A: l[0], B: l[1]})
		down[l] = true
		nops = r.Range(0, 12)
	}
	for i := 0; i < nops; i++ {
		if prop == "C18" && len(c.Links) > 0 && r.Chance(0.05) {
			// a router restarts quickly after a busy spell, into a changed neighbourhood: the network converges
			// (deliveries take no simulated time, so every router has issued several advertisements within the same
			// second), one router crashes, one of its links goes away meanwhile, and it is back well inside its
			// neighbours' dead interval - they must take over the new instance's advertisements
			l := kit.Pick(r, c.Links)
			x := l[r.Intn(2)]
			if !crashed[x] && !down[l] {
				for y := 0; y < c.N; y++ {
					sc.Ops = append(sc.Ops, Op{Op: "tick", R: y})
				}
				for k, nk := 0, r.Range(10, 60); k < nk; k++ {
					sc.Ops = append(sc.Ops, Op{Op: "deliver", K: 0})
				}
				down[l] = true
				sc.Ops = append(sc.Ops, Op{Op: "crash", R: x}, Op{Op: "linkdown", A: l[0], B: l[1]}, Op{Op: "advance", Ms: kit.Pick(r, []int{1, 100, 900, 2500})},
					Op{Op: "restart", R: x}, Op{Op: "tick", R: x}, Op{Op: "deliver", K: 0}, Op{Op: "deliver", K: 0})
				continue
			}
		}
		if prop == "C19" && c.N >= 2 && r.Chance(0.05) {
			// the tables change again while a failed management command is waiting for its retry: a prefix is
			// announced, the registration at a peer fails once or twice, the prefix is withdrawn (or its cost
			// changes through a re-announcement elsewhere) before the retry, then time passes
			q := r.Intn(c.N)
			x := (q + 1 + r.Intn(c.N-1)) % c.N
			pf := kit.Pick(r, prefixes)
			sc.Ops = append(sc.Ops, Op{Op: "mgmtfail", R: x, K: r.Range(1, 2)}, Op{Op: "announce", R: q, Prefix: pf})
			for k, nk := 0, r.Range(3, 10); k < nk; k++ {
				sc.Ops = append(sc.Ops, Op{Op: "deliver", K: 0})
			}
			if r.Chance(0.3) {
				sc.Ops = append(sc.Ops, Op{Op: "advance", Ms: kit.Pick(r, []int{1, 50, 99})})
			}
			sc.Ops = append(sc.Ops, Op{Op: "withdraw", R: q, Prefix: pf})
			for k, nk := 0, r.Range(3, 10); k < nk; k++ {
				sc.Ops = append(sc.Ops, Op{Op: "deliver", K: 0})
			}
			sc.Ops = append(sc.Ops, Op{Op: "advance", Ms: kit.Pick(r, []int{100, 300, 1000})}, Op{Op: "deliver", K: 0}, Op{Op: "advance", Ms: 500})
			continue
		}
		switch r.Weighted([]int{wTick, wDeliver, wDrop, wDup, wAdv, wLink, wCrash, wPfx, wReface, wDead, wMgmt, wCorrupt, wHold, wSendErr}) {
		case 13:
			// a router's socket refuses packets for a while (they are lost; what was to be sent must be sent again by
			// whatever retries the protocol has)
			sc.Ops = append(sc.Ops, Op{Op: "senderr", R: r.Intn(c.N), Ms: kit.Pick(r, []int{0, 0, 1, 10, 100, 1000})})
		case 12:
			x, pt := r.Intn(c.N), kit.Pick(r, []string{"rib-update", "rib-update", "fib-update"})
			k := fmt.Sprintf("%d|%s", x, pt)
			if held[k] {
				delete(held, k)
				sc.Ops = append(sc.Ops, Op{Op: "release", R: x, Point: pt, K: kit.Pick(r, []int{0, 1, 1, 2})})
			} else {
				held[k] = true
				sc.Ops = append(sc.Ops, Op{Op: "hold", R: x, Point: pt})
				if pt == "rib-update" && r.Chance(0.7) {
					// a neighbour's table changes twice while this router's updates are held back: it fetches both
					// advertisements, the updates they start wait at the gate and then run latest first
					var ys [][2]int // (y, z): y a neighbour of x, z another neighbour of y
					for _, l := range c.Links {
						for _, e := range [][2]int{{l[0], l[1]}, {l[1], l[0]}} {
							if e[0] != x && e[1] != x {
								for _, l2 := range c.Links {
									if (l2[0] == x && l2[1] == e[0]) || (l2[1] == x && l2[0] == e[0]) {
										ys = append(ys, e)
									}
								}
							}
						}
					}
					if len(ys) > 0 {
						e := kit.Pick(r, ys)
						y, z := e[0], e[1]
						seq := []Op{{Op: "linkdown", A: y, B: z}, {Op: "advance", Ms: c.DeadMs + 500}, {Op: "deadcheck", R: y}, {Op: "tick", R: y}}
						for i := 0; i < 12; i++ {
							seq = append(seq, Op{Op: "deliver", K: 0})
						}
						seq = append(seq, Op{Op: "linkup", A: y, B: z}, Op{Op: "tick", R: z}, Op{Op: "tick", R: y})
						for i := 0; i < 16; i++ {
							seq = append(seq, Op{Op: "deliver", K: 0})
						}
						seq = append(seq, Op{Op: "tick", R: y})
						for i := 0; i < 12; i++ {
							seq = append(seq, Op{Op: "deliver", K: 0})
						}
						sc.Ops = append(sc.Ops, seq...)
						delete(held, k)
						sc.Ops = append(sc.Ops, Op{Op: "release", R: x, Point: pt, K: 1})
						continue
					}
				}
				// typically: something arrives while held, then the neighbour is declared dead, then the release
				if r.Chance(0.5) {
					sc.Ops = append(sc.Ops, Op{Op: "deliver", K: r.Intn(4)}, Op{Op: "deliver", K: r.Intn(4)}, Op{Op: "deliver", K: r.Intn(4)})
					if r.Chance(0.6) {
						sc.Ops = append(sc.Ops, Op{Op: "advance", Ms: c.DeadMs + 500}, Op{Op: "deadcheck", R: x})
					}
					delete(held, k)
					sc.Ops = append(sc.Ops, Op{Op: "release", R: x, Point: pt, K: kit.Pick(r, []int{0, 1, 1, 2})})
				}
			}
		case 11:
			o := Op{Op: "corrupt", K: r.Intn(16)}
			o.Mut, o.At, o.Val = facesim.GenMutFix(r, 64, 2000)
			sc.Ops = append(sc.Ops, o, Op{Op: "deliver", K: o.K})
		case 0:
			sc.Ops = append(sc.Ops, Op{Op: "tick", R: r.Intn(c.N)})
		case 1:
			sc.Ops = append(sc.Ops, Op{Op: "deliver", K: r.Intn(16)})
		case 2:
			sc.Ops = append(sc.Ops, Op{Op: "drop", K: r.Intn(16)})
		case 3:
			sc.Ops = append(sc.Ops, Op{Op: "dup", K: r.Intn(16)})
		case 4:
			sc.Ops = append(sc.Ops, Op{Op: "advance", Ms: kit.Pick(r, []int{1, 10, 11, 100, 500, 1000, 4000, 5000, 10000, 30000})})
		case 5:
			l := kit.Pick(r, c.Links)
			if down[l] {
				delete(down, l)
				sc.Ops = append(sc.Ops, Op{Op: "linkup", A: l[0], B: l[1]})
			} else {
				down[l] = true
				sc.Ops = append(sc.Ops, Op{Op: "linkdown", A: l[0], B: l[1]})
			}
		case 6:
			x := r.Intn(c.N)
			if crashed[x] {
				delete(crashed, x)
				sc.Ops = append(sc.Ops, Op{Op: "restart", R: x})
			} else {
				crashed[x] = true
				sc.Ops = append(sc.Ops, Op{Op: "crash", R: x})
			}
		case 7:
			o := Op{Op: kit.Pick(r, []string{"announce", "announce", "withdraw"}), R: r.Intn(c.N), Prefix: kit.Pick(r, prefixes)}
			if o.Op == "announce" && r.Chance(0.08) {
				o.Count = r.Range(100, 130) // a burst that opens a log gap > 100
			} else if o.Op == "announce" && r.Chance(0.06) {
				o.Count = r.Range(55, 100) // ... or a long stretch of the log that a peer must still replay op by op
			} else if o.Op == "announce" && r.Chance(0.06) {
				// ... or the log crosses a multiple of 100 operations while peers are a few operations behind: a
				// stretch just short of 100, some deliveries, a few more
				o.Count = r.Range(94, 99)
				sc.Ops = append(sc.Ops, o)
				for k, nk := 0, r.Intn(30); k < nk; k++ {
					sc.Ops = append(sc.Ops, Op{Op: "deliver", K: 0})
				}
				o = Op{Op: "announce", R: o.R, Prefix: kit.Pick(r, prefixes), Count: r.Range(2, 8)}
			}
			sc.Ops = append(sc.Ops, o)
		case 8:
			l := kit.Pick(r, c.Links)
			sc.Ops = append(sc.Ops, Op{Op: "reface", A: l[0], B: l[1]})
		case 9:
			sc.Ops = append(sc.Ops, Op{Op: "deadcheck", R: r.Intn(c.N)})
		case 10:
			x := r.Intn(c.N)
			sc.Ops = append(sc.Ops, Op{Op: "mgmtfail", R: x, K: r.Range(1, 2)})
			if r.Chance(0.5) && len(c.Links) > 0 {
				// ... right before that router's routes change twice in a row (commands queue up behind the failing one)
				var mine [][2]int
				for _, l := range c.Links {
					if l[0] == x || l[1] == x {
						mine = append(mine, l)
					}
				}
				if len(mine) > 0 {
					l := kit.Pick(r, mine)
					sc.Ops = append(sc.Ops, Op{Op: "reface", A: l[0], B: l[1]}, Op{Op: "tick", R: l[0]}, Op{Op: "tick", R: l[1]},
						Op{Op: "deliver", K: 0}, Op{Op: "deliver", K: 0}, Op{Op: "deliver", K: 0}, Op{Op: "deliver", K: 0},
						Op{Op: "reface", A: l[0], B: l[1]}, Op{Op: "tick", R: l[0]}, Op{Op: "tick", R: l[1]},
						Op{Op: "deliver", K: 0}, Op{Op: "deliver", K: 0}, Op{Op: "deliver", K: 0}, Op{Op: "deliver", K: 0})
				}
			}
		}
	}
	// late joiners come up, then faults stop
	for _, l := range c.Late {
		if crashed[l] {
			sc.Ops = append(sc.Ops, Op{Op: "restart", R: l})
		}
	}
	sc.Ops = append(sc.Ops, Op{Op: "settle"})
	return sc
}

func (Engine) Simplify(sc *kit.Scenario[Config, Op]) []*kit.Scenario[Config, Op] {
	var out []*kit.Scenario[Config, Op]
	modC := func(f func(c *Config)) {
		n := sc.WithOps(sc.Ops)
		c := sc.Config
		c.Links = append([][2]int(nil), c.Links...)
		c.Late = append([]int(nil), c.Late...)
		c.Passive = append([][2]int(nil), c.Passive...)
		f(&c)
		n.Config = c
		out = append(out, n)
	}
	for i := range sc.Config.Links {
		i := i
		modC(func(c *Config) { c.Links = append(c.Links[:i], c.Links[i+1:]...) })
	}
	if len(sc.Config.Late) > 0 {
		modC(func(c *Config) { c.Late = nil })
	}
	if len(sc.Config.Passive) > 0 {
		modC(func(c *Config) { c.Passive = nil })
		for i := range sc.Config.Passive {
			i := i
			modC(func(c *Config) { c.Passive = append(c.Passive[:i], c.Passive[i+1:]...) })
		}
	}
	// drop the highest-numbered router if nothing refers to it
	if sc.Config.N > 2 {
		last := sc.Config.N - 1
		used := false
		for _, l := range sc.Config.Links {
			if l[0] == last || l[1] == last {
				used = true
			}
		}
		for _, o := range sc.Ops {
			if o.R == last || o.A == last || o.B == last {
				used = true
			}
		}
		if !used {
			modC(func(c *Config) { c.N-- })
		}
	}
	for i, o := range sc.Ops {
		mod := func(f func(o *Op)) {
			ops := append([]Op(nil), sc.Ops...)
			f(&ops[i])
			out = append(out, sc.WithOps(ops))
		}
		if o.K > 0 {
			mod(func(o *Op) { o.K = 0 })
		}
		if o.Ms > 1 {
			mod(func(o *Op) { o.Ms /= 2 })
		}
		if o.Count > 0 {
			mod(func(o *Op) { o.Count = 0 })
			if o.Count > 101 {
				mod(func(o *Op) { o.Count = 101 })
			}
		}
	}
	return out
}

// ---------------------------------------------------------------- simulated face / node

type simFace struct {
	running bool
	onPkt   func(r enc.ParseReader) error
	mu      sync.Mutex // Send is called from several goroutines of a router (a real face serialises sends too)
	out     [][]byte
	// failUntil: until that (simulated) instant every send of a routing packet fails with a transient error, as a
	// socket does while its buffer is full (management commands have their own failure fault and retry budget).
	// A window of time rather than a number of packets: several goroutines of a router send at the same instant,
	// and which of them would meet "the next n" is the Go scheduler's choice
	failUntil time.Time
	onFail    func()
}

// drain takes what has been sent so far, in a canonical order (several goroutines
// of a router may have sent at the same simulated instant).
func (f *simFace) drain() [][]byte {
	f.mu.Lock()
	out := f.out
	f.out = nil
	f.mu.Unlock()
	if len(out) > 1 {
		key := func(raw []byte) string {
			pkt, _, err := spec.ReadPacket(enc.NewBufferReader(raw))
			if err != nil {
				return ""
			}
			if pkt.LpPacket != nil {
				if in, _, err := spec.ReadPacket(enc.NewWireReader(pkt.LpPacket.Fragment)); err == nil {
					pkt = in
				}
			}
			switch {
			case pkt.Interest != nil:
				n := pkt.Interest.NameV
				if len(n) > 5 && hasPrefix(n, "/localhost/nfd") {
					n = n[:5] // management command without its signature components (timestamp, nonce)
				}
				return "I" + n.String()
			case pkt.Data != nil:
				return "D" + pkt.Data.NameV.String()
			}
			return ""
		}
		sort.SliceStable(out, func(i, j int) bool { return key(out[i]) < key(out[j]) })
	}
	return out
}

func (f *simFace) Open() error     { f.running = true; return nil }
func (f *simFace) Close() error    { f.running = false; return nil }
func (f *simFace) IsRunning() bool { return f.running }
func (f *simFace) IsLocal() bool   { return true }
func (f *simFace) SetCallback(onPkt func(r enc.ParseReader) error, onError func(err error) error) {
	f.onPkt = onPkt
}
func (f *simFace) Send(pkt enc.Wire) error {
	if !f.running {
		return fmt.Errorf("face is down")
	}
	f.mu.Lock()
	defer f.mu.Unlock()
	if !f.failUntil.IsZero() && !time.Now().After(f.failUntil) {
		raw := pkt.Join()
		if !bytes.Contains(raw, []byte("\x08\x09localhost\x08\x03nfd")) {
			if f.onFail != nil {
				f.onFail()
			}
			return fmt.Errorf("simulated: no buffer space available")
		}
	}
	f.out = append(f.out, append([]byte(nil), pkt.Join()...))
	return nil
}

type routeKey struct {
	name   string
	face   uint64
	origin uint64
}

type node struct {
	id         int
	name       enc.Name
	alive      bool
	face       *simFace
	router     *dv.Router
	routes     map[routeKey]uint64 // reference route table replayed from the command stream
	mgmtFail   int                 // next n management commands are answered with an error
	lastFail   time.Duration
	failStreak int
	incarn     int
	// prefix log of this router as the harness knows it: seq -> announced set after that op
	hist      map[uint64]map[string]bool
	announced map[string]bool
	lastSeq   uint64
}

type message struct {
	key       string
	seq       int
	kind      string // sync advreq advdata pfxreq pfxdata pfxsync
	src       int
	dst       int
	frame     []byte
	node      enc.Name // pfxsync
	high      uint64
	incarnDst int
	corrupted bool
}

type world struct {
	gmu              sync.Mutex
	gates            map[string]*gate
	sendErrs         atomic.Int64
	gateWaits        int
	corruptDelivered int
	ctx              *kit.Ctx
	sc               *kit.Scenario[Config, Op]
	res              *kit.Result
	nodes            []*node
	linkUp           map[[2]int]bool
	passive          map[[2]int]bool // {i, j}: i has no configured neighbour entry for j
	everLink         map[[2]int]bool
	faceOf           map[[2]int]uint64 // (at, towards) -> face id
	inflight         []*message
	mseq             int
	pending          map[string]map[int]bool // Interest name -> requesters awaiting Data
	step             int
	start            time.Time
	deliveries       int
	notified         map[string]uint64 // "dst|owner" -> highest sequence the hub has told dst about
	maxAdvRounds     int
	signer           ndn.Signer
	zombies          []*dv.Router
	zfaces           []*simFace
	parent           *world            // set for the reference world built at the fixed point (C18 tie-break check)
	finalNH          map[string]string // "router>dest" -> next hop at the fixed point
}

func rname(i int) string { return fmt.Sprintf("/ndn/r%d", i) }

func mkName(s string) enc.Name {
	n, err := enc.NameFromStr(s)
	if err != nil {
		panic("harness: bad name " + s)
	}
	return n
}

func lk(a, b int) [2]int {
	if a > b {
		a, b = b, a
	}
	return [2]int{a, b}
}

func (w *world) fail(class, key, format string, a ...any) {
	// a C04 run corrupts routing traffic: what the tables then hold is not judged, only that nothing crashes,
	// hangs or allocates out of proportion
	if w.sc.Property == "C04" && !strings.HasPrefix(class, "C04/") {
		return
	}
	if w.res.Violation == nil {
		w.res.Violation = &kit.Violation{Class: class, Key: key, Step: w.step, Detail: fmt.Sprintf(format, a...)}
	}
}

func (w *world) now() time.Duration { return time.Since(w.start) }

// gate: the goroutines held back at one point of one router, in their order of arrival.
type gate struct {
	waiters []chan struct{}
}

// releaseGate lets the goroutines waiting at one gate (or, with key "", at every gate) continue - one at a time,
// each running until it blocks or ends before the next one starts, in the order the scenario chooses (order 0: as
// they arrived, 1: the latest first, k: starting with the k-th). Goroutines that the daemon started one after the
// other do not have to get its lock in that order.
func (w *world) releaseGate(key string, order int) {
	w.gmu.Lock()
	var open []*gate
	var keys []string
	for k := range w.gates {
		if key == "" || k == key || strings.HasPrefix(k, key) {
			keys = append(keys, k)
		}
	}
	sort.Strings(keys)
	for _, k := range keys {
		open = append(open, w.gates[k])
		delete(w.gates, k)
	}
	w.gmu.Unlock()
	for _, g := range open {
		ws := g.waiters
		n := len(ws)
		if n > 1 && order > 0 {
			w.ctx.Probe("held-goroutines-released-out-of-order")
		}
		for i := 0; i < n; i++ {
			j := i
			switch {
			case order == 1:
				j = n - 1 - i
			case order > 1:
				j = (i + order) % n
			}
			close(ws[j])
			synctest.Wait()
		}
	}
}

// gateHeld: some table-update goroutine of this router is being held back by the scenario (or may be: a gate is
// closed), so its installed routes legitimately lag behind its tables.
func (w *world) gateHeld(n *node) bool {
	w.gmu.Lock()
	defer w.gmu.Unlock()
	for k := range w.gates {
		if strings.HasPrefix(k, n.name.String()+"|") {
			return true
		}
	}
	return false
}

func (w *world) installGate() {
	dv.VerifGate = func(router enc.Name, point string) {
		w.gmu.Lock()
		var ch chan struct{}
		if g := w.gates[router.String()+"|"+point]; g != nil {
			ch = make(chan struct{})
			g.waiters = append(g.waiters, ch)
			w.gateWaits++
		}
		w.gmu.Unlock()
		if ch != nil {
			<-ch
		}
	}
}

func (w *world) startNode(n *node) {
	if n.face != nil {
		w.zfaces = append(w.zfaces, n.face)
	}
	n.face = &simFace{}
	cfg := dvconfig.DefaultConfig()
	cfg.Network = "/ndn"
	cfg.Router = rname(n.id)
	cfg.AdvertisementSyncInterval_ms = uint64(w.sc.Config.AdvertMs)
	cfg.RouterDeadInterval_ms = uint64(w.sc.Config.DeadMs)
	eng := basic.NewEngine(n.face, basic.NewTimer(), w.signer, func(enc.Name, enc.Wire, ndn.Signature) bool { return true })
	if err := eng.Start(); err != nil {
		panic("harness: engine start: " + err.Error())
	}
	r, err := dv.NewRouter(cfg, eng)
	if err != nil {
		panic("harness: NewRouter: " + err.Error())
	}
	n.router = r
	n.alive = true
	n.incarn++
	n.routes = map[routeKey]uint64{}
	n.hist = map[uint64]map[string]bool{}
	n.announced = map[string]bool{}
	n.lastSeq = 0
	if err := r.VerifInit(); err != nil {
		panic("harness: VerifInit: " + err.Error())
	}
	w.pump(5 * time.Millisecond)
	w.recordOwnSeq(n)
}

// recordOwnSeq notes the owner's latest prefix-log sequence number and the set it stands for.
func (w *world) recordOwnSeq(n *node) {
	_, _, pfx, _, _ := n.router.VerifTables()
	for _, pr := range pfx {
		if pr.Name.Equal(n.name) {
			if pr.Latest != n.lastSeq {
				n.lastSeq = pr.Latest
			}
			set := map[string]bool{}
			for p := range n.announced {
				set[p] = true
			}
			n.hist[pr.Latest] = set
		}
	}
}

func (w *world) stopNode(n *node) {
	if n.router != nil && n.alive {
		// A crashed router is cut off: nothing reaches it and whatever it still sends is
		// discarded. Only its management commands are acknowledged (without effect), so
		// that its management client drains its queue and can be stopped.
		// The process is really stopped at the end of the run (see windDown).
		n.alive = false
		w.releaseGate(n.name.String()+"|", 0)
		w.zombies = append(w.zombies, n.router)
		w.pump(2 * time.Millisecond)
	}
}

func (w *world) enqueue(m *message) {
	w.mseq++
	m.seq = w.mseq
	if m.dst >= 0 {
		m.incarnDst = w.nodes[m.dst].incarn
	}
	w.inflight = append(w.inflight, m)
}

func (w *world) sortInflight() {
	sort.SliceStable(w.inflight, func(i, j int) bool {
		if w.inflight[i].key != w.inflight[j].key {
			return w.inflight[i].key < w.inflight[j].key
		}
		return w.inflight[i].seq < w.inflight[j].seq
	})
}

func (w *world) reachable(a, b int) bool {
	seen := map[int]bool{a: true}
	q := []int{a}
	for len(q) > 0 {
		x := q[0]
		q = q[1:]
		if x == b {
			return true
		}
		for l, up := range w.linkUp {
			if !up {
				continue
			}
			y := -1
			if l[0] == x {
				y = l[1]
			} else if l[1] == x {
				y = l[0]
			}
			if y >= 0 && !seen[y] && w.nodes[y].alive {
				seen[y] = true
				q = append(q, y)
			}
		}
	}
	return false
}

func nodeIndex(name enc.Name) int {
	// /ndn/r<i>
	if len(name) >= 2 {
		s := string(name[1].Val)
		if strings.HasPrefix(s, "r") {
			i := 0
			if _, err := fmt.Sscanf(s, "r%d", &i); err == nil {
				return i
			}
		}
	}
	return -1
}

func lpWrap(frame []byte, inFace uint64) []byte {
	p := &spec.Packet{LpPacket: &spec.LpPacket{Fragment: enc.Wire{frame}, IncomingFaceId: utils.IdPtr(inFace)}}
	e := spec.PacketEncoder{}
	e.Init(p)
	return e.Encode(p).Join()
}

// process handles everything the routers have put on their faces. Returns the number of packets handled.
func (w *world) process() int {
	handled := 0
	if w.parent != nil {
		handled += w.parent.process()
	}
	for _, f := range w.zfaces { // earlier incarnations: acknowledge management commands, discard the rest
		out := f.drain()
		for _, raw := range out {
			if pkt, _, err := spec.ReadPacket(enc.NewBufferReader(raw)); err == nil && pkt.Interest != nil && hasPrefix(pkt.Interest.NameV, "/localhost/nfd") {
				w.ackMgmtOn(f, pkt.Interest)
				handled++
			}
		}
	}
	for _, n := range w.nodes {
		if n.face == nil {
			continue
		}
		out := n.face.drain()
		if len(out) == 0 {
			continue
		}
		if !n.alive {
			for _, raw := range out {
				if pkt, _, err := spec.ReadPacket(enc.NewBufferReader(raw)); err == nil && pkt.Interest != nil && hasPrefix(pkt.Interest.NameV, "/localhost/nfd") {
					w.ackMgmt(n, pkt.Interest)
					handled++
				}
			}
			continue
		}
		for _, raw := range out {
			handled++
			pkt, _, err := spec.ReadPacket(enc.NewBufferReader(raw))
			if err != nil {
				w.fail("C18/router-sent-undecodable-packet", "", "router %d sent an undecodable packet", n.id)
				continue
			}
			inner := raw
			if pkt.LpPacket != nil {
				inner = pkt.LpPacket.Fragment.Join()
				pkt, _, err = spec.ReadPacket(enc.NewBufferReader(inner))
				if err != nil {
					continue
				}
			}
			switch {
			case pkt.Interest != nil:
				w.onInterest(n, pkt.Interest, inner)
			case pkt.Data != nil:
				w.onData(n, pkt.Data, inner)
			}
		}
	}
	return handled
}

func hasPrefix(name enc.Name, pfx string) bool { return mkName(pfx).IsPrefix(name) }

func (w *world) onInterest(n *node, in *spec.Interest, raw []byte) {
	name := in.NameV
	switch {
	case hasPrefix(name, "/localhost/nfd"):
		w.onMgmt(n, in)
	case hasPrefix(name, "/localhop/ndn/32=DV/32=ADS"):
		// What the forwarder does with the two sync prefixes: the active one has a route to every configured
		// neighbour, the passive one the routes the router itself registered for faces it heard a neighbour on
		which := name[len(name)-3].String()
		for j := range w.nodes {
			if j == n.id {
				continue
			}
			switch which {
			case "32=ACT":
				if w.passive[[2]int{n.id, j}] {
					continue
				}
			case "32=PSV":
				has := false
				for k := range n.routes {
					if k.name == "/localhop/ndn/32=DV/32=ADS/32=PSV" && k.face == w.faceOf[[2]int{n.id, j}] {
						has = true
					}
				}
				if !has {
					w.ctx.Probe("passive-sync-without-route")
					continue
				}
			}
			if w.linkUp[lk(n.id, j)] && w.nodes[j].alive {
				w.enqueue(&message{key: fmt.Sprintf("1sync|%d|%d|%s", n.id, j, name[len(name)-3].String()), kind: "sync", src: n.id, dst: j,
					frame: lpWrap(raw, w.faceOf[[2]int{j, n.id}])})
			}
		}
	case len(name) > 3 && name[0].String() == "localhop" && hasPrefix(name[1:], "/ndn"):
		// advertisement fetch: /localhop/<router>/32=DV/32=ADV/seq
		j := nodeIndex(name[1:])
		if j >= 0 && j < len(w.nodes) && w.linkUp[lk(n.id, j)] && w.nodes[j].alive {
			w.addPending(name.String(), n.id)
			w.enqueue(&message{key: fmt.Sprintf("2advreq|%d|%d", n.id, j), kind: "advreq", src: n.id, dst: j, frame: raw})
		} else {
			w.ctx.Fault("no-route-for-advert-fetch")
		}
	case hasPrefix(name, "/ndn") && len(name) > 3:
		// prefix data fetch: /ndn/r<j>/32=DV/32=PFX/...
		j := nodeIndex(name)
		if j >= 0 && j < len(w.nodes) && j != n.id && w.nodes[j].alive && w.reachable(n.id, j) {
			w.addPending(name.String(), n.id)
			w.enqueue(&message{key: fmt.Sprintf("3pfxreq|%d|%d", n.id, j), kind: "pfxreq", src: n.id, dst: j, frame: raw})
		} else {
			w.ctx.Fault("no-route-for-prefix-fetch")
		}
	}
}

func (w *world) addPending(name string, req int) {
	if w.pending[name] == nil {
		w.pending[name] = map[int]bool{}
	}
	w.pending[name][req] = true
}

func (w *world) onData(n *node, d *spec.Data, raw []byte) {
	name := d.NameV.String()
	// a Data may answer a CanBePrefix Interest (snapshot): match pending names that are prefixes
	var reqs []int
	var matched []string
	for pn, rs := range w.pending {
		if pn == name || strings.HasPrefix(name, pn+"/") {
			for r := range rs {
				reqs = append(reqs, r)
			}
			matched = append(matched, pn)
		}
	}
	for _, pn := range matched {
		delete(w.pending, pn)
	}
	sort.Ints(reqs)
	kind := "advdata"
	if !strings.HasPrefix(name, "/localhop") {
		kind = "pfxdata"
	} else {
		// safety: no advertisement lists a destination at or above infinity
		if adv, err := dvtlv.ParseAdvertisement(enc.NewWireReader(d.Content()), false); err == nil {
			for _, e := range adv.Entries {
				if e.Cost >= dvconfig.CostInfinity {
					dn := "?"
					if e.Destination != nil {
						dn = e.Destination.Name.String()
					}
					w.fail("C18/advertisement-lists-infinite-cost", "", "router %d advertised %s with cost %d", n.id, dn, e.Cost)
				}
			}
		}
	}
	for _, r := range reqs {
		w.enqueue(&message{key: fmt.Sprintf("4%s|%d|%d", kind, n.id, r), kind: kind, src: n.id, dst: r, frame: raw})
	}
}

// onMgmt answers a management command as NFD would and records its effect.
func (w *world) onMgmt(n *node, in *spec.Interest) {
	name := in.NameV
	status, text := uint64(200), "OK"
	var args *mgmt.ControlArgs
	if len(name) < 5 {
		status, text = 400, "bad command"
	} else {
		p, err := mgmt.ParseControlParameters(enc.NewBufferReader(name[4].Val), true)
		if err != nil || p.Val == nil {
			status, text = 400, "bad parameters"
		} else {
			args = p.Val
		}
	}
	// Only commands the daemon retries three times are failed (route registrations); unregistrations are
	// attempted once by design, and the property does not quantify over management failures beyond retries.
	if n.mgmtFail > 0 && n.failStreak < 2 && status == 200 && name[3].String() == "register" && args.FaceId != nil {
		n.mgmtFail--
		n.failStreak++
		n.lastFail = w.now()
		status, text = 503, "simulated failure"
		w.ctx.Fault("management-command-failed")
	}
	if status == 200 {
		n.failStreak = 0 // never more than two failures in a row: every command is retried three times
		module, verb := name[2].String(), name[3].String()
		if module == "rib" && args.Name != nil {
			k := routeKey{name: args.Name.String()}
			if args.FaceId != nil {
				k.face = *args.FaceId
			}
			if args.Origin != nil {
				k.origin = *args.Origin
			}
			switch verb {
			case "register":
				c := uint64(0)
				if args.Cost != nil {
					c = *args.Cost
				}
				n.routes[k] = c
			case "unregister":
				delete(n.routes, k)
			}
		}
	}
	resp := &mgmt.ControlResponse{Val: &mgmt.ControlResponseVal{StatusCode: status, StatusText: text, Params: args}}
	d, err := spec.Spec{}.MakeData(name, &ndn.DataConfig{ContentType: utils.IdPtr(ndn.ContentTypeBlob), Freshness: utils.IdPtr(time.Second)}, resp.Encode(), w.signer)
	if err != nil {
		panic("harness: MakeData: " + err.Error())
	}
	n.face.onPkt(enc.NewBufferReader(d.Wire.Join()))
}

func (w *world) ackMgmt(n *node, in *spec.Interest) { w.ackMgmtOn(n.face, in) }

func (w *world) ackMgmtOn(f *simFace, in *spec.Interest) {
	resp := &mgmt.ControlResponse{Val: &mgmt.ControlResponseVal{StatusCode: 200, StatusText: "OK"}}
	d, err := spec.Spec{}.MakeData(in.NameV, &ndn.DataConfig{ContentType: utils.IdPtr(ndn.ContentTypeBlob), Freshness: utils.IdPtr(time.Second)}, resp.Encode(), w.signer)
	if err != nil {
		panic("harness: MakeData: " + err.Error())
	}
	f.onPkt(enc.NewBufferReader(d.Wire.Join()))
}

// pump lets simulated time pass while serving the routers' output promptly.
func (w *world) pump(d time.Duration) {
	end := w.now() + d
	for {
		synctest.Wait()
		if w.process() > 0 {
			continue
		}
		if w.now() >= end {
			return
		}
		step := time.Millisecond
		if end-w.now() > 200*time.Millisecond && w.mgmtIdle() {
			step = 10 * time.Millisecond
		}
		if end-w.now() < step {
			step = end - w.now()
		}
		time.Sleep(step)
	}
}

func (w *world) mgmtIdle() bool {
	for _, n := range w.nodes {
		if n.router != nil && n.router.VerifMgmtQueueLen() > 0 {
			return false
		}
	}
	return true
}

func (w *world) deliver(m *message) {
	w.deliveries++
	dst := w.nodes[m.dst]
	if !dst.alive || dst.incarn != m.incarnDst {
		return
	}
	switch m.kind {
	case "sync", "advreq", "pfxreq", "advdata", "pfxdata":
		// a link that went down in the meantime loses what was in flight on it (one-hop kinds)
		if (m.kind == "sync" || m.kind == "advreq" || m.kind == "advdata") && !w.linkUp[lk(m.src, m.dst)] {
			w.ctx.Fault("lost-on-failed-link")
			return
		}
		if m.corrupted {
			w.corruptDelivered++
			var ms0, ms1 runtime.MemStats
			runtime.ReadMemStats(&ms0)
			dst.face.onPkt(enc.NewBufferReader(append([]byte(nil), m.frame...)))
			synctest.Wait()
			runtime.ReadMemStats(&ms1)
			if grown := ms1.TotalAlloc - ms0.TotalAlloc; grown > 4<<20+64*uint64(len(m.frame)) {
				w.fail("C04/allocation-out-of-proportion", "dv/"+m.kind, "a corrupted %s packet of %d bytes made the router allocate %d bytes", m.kind, len(m.frame), grown)
			}
			return
		}
		dst.face.onPkt(enc.NewBufferReader(append([]byte(nil), m.frame...)))
	case "pfxsync":
		// state-vector sync reports a node's sequence number only when it is higher than what it reported before
		k := fmt.Sprintf("d|%d|%d|%s", m.dst, dst.incarn, m.node)
		if m.high > w.notified[k] {
			w.notified[k] = m.high
			dst.router.VerifPfxSyncUpdate(m.node, m.high)
		}
	}
}

// announceSeqs tells every reachable router about newer prefix-log sequence numbers (what state-vector sync does).
func (w *world) announceSeqs() {
	for _, o := range w.nodes {
		if !o.alive {
			continue
		}
		for _, q := range w.nodes {
			if q.id == o.id || !q.alive || !w.reachable(o.id, q.id) {
				continue
			}
			k := fmt.Sprintf("%d|%d|%d|%d", q.id, q.incarn, o.id, o.incarn)
			if w.notified[k] < o.lastSeq {
				w.notified[k] = o.lastSeq
				w.enqueue(&message{key: fmt.Sprintf("5pfxsync|%d|%d", o.id, q.id), kind: "pfxsync", src: o.id, dst: q.id, node: o.name, high: o.lastSeq})
			}
		}
	}
}

func (e Engine) Run(t *testing.T, ctx *kit.Ctx, sc *kit.Scenario[Config, Op]) *kit.Result {
	res := &kit.Result{}
	log.SetLevel(log.FatalLevel)
	var pan any
	var site string
	synctest.Test(t, func(t *testing.T) {
		w := &world{ctx: ctx, sc: sc, res: res, linkUp: map[[2]int]bool{}, everLink: map[[2]int]bool{}, faceOf: map[[2]int]uint64{},
			pending: map[string]map[int]bool{}, notified: map[string]uint64{}, signer: sec.NewSha256Signer()}
		func() {
			defer func() {
				if p := recover(); p != nil {
					pan, site = p, kit.PanicSite()
				}
			}()
			w.run()
		}()
		if pan != nil {
			// a panic in the code under test unwound the harness goroutine: the routers' goroutines must still
			// be wound down, or the bubble cannot close
			func() {
				defer func() { recover() }()
				w.windDown()
			}()
		}
	})
	if pan != nil {
		if strings.HasPrefix(site, "harness:") || strings.Contains(fmt.Sprint(pan), "deadlock") {
			panic(pan)
		}
		msg := fmt.Sprint(pan)
		if len(msg) > 300 {
			msg = msg[:300]
		}
		res.Violation = &kit.Violation{Class: sc.Property + "/panic", Key: site, Step: -1, Detail: msg}
	}
	return res
}

func (w *world) run() {
	w.start = time.Now()
	if w.gates == nil {
		w.gates = map[string]*gate{}
	}
	w.installGate()
	c := w.sc.Config
	late := map[int]bool{}
	for _, l := range c.Late {
		late[l] = true
	}
	for i := 0; i < c.N; i++ {
		w.nodes = append(w.nodes, &node{id: i, name: mkName(rname(i))})
	}
	for _, l := range c.Links {
		if l[0] < c.N && l[1] < c.N && l[0] != l[1] {
			w.linkUp[lk(l[0], l[1])] = true
			w.everLink[lk(l[0], l[1])] = true
		}
	}
	for a := 0; a < c.N; a++ {
		for b := 0; b < c.N; b++ {
			w.faceOf[[2]int{a, b}] = uint64(100 + b)
		}
	}
	w.passive = map[[2]int]bool{}
	for _, p := range c.Passive {
		if !w.passive[[2]int{p[1], p[0]}] { // a link is configured at one end at least
			w.passive[p] = true
		}
	}
	for _, n := range w.nodes {
		if !late[n.id] {
			w.startNode(n)
		}
	}
	dg := kit.NewDigest()
	changedPrefix, installedPrefix := false, false
	for i := range w.sc.Ops {
		o := &w.sc.Ops[i]
		w.step = i
		switch o.Op {
		case "tick":
			if n := w.nodes[o.R%c.N]; n.alive {
				n.router.VerifHeartbeat()
			}
		case "deadcheck":
			if n := w.nodes[o.R%c.N]; n.alive {
				n.router.VerifDeadcheck()
			}
		case "deliver", "drop", "dup":
			w.sortInflight()
			if len(w.inflight) > 0 {
				k := o.K % len(w.inflight)
				m := w.inflight[k]
				switch o.Op {
				case "deliver":
					w.inflight = append(w.inflight[:k:k], w.inflight[k+1:]...)
					w.deliver(m)
				case "drop":
					w.inflight = append(w.inflight[:k:k], w.inflight[k+1:]...)
					w.ctx.Fault("drop-" + m.kind)
					if m.kind == "pfxsync" {
						// the state vector is repeated by later sync rounds: allow re-notification
						delete(w.notified, fmt.Sprintf("%d|%d|%d|%d", m.dst, w.nodes[m.dst].incarn, m.src, w.nodes[m.src].incarn))
					}
				case "dup":
					w.ctx.Fault("duplicate-" + m.kind)
					w.deliver(m)
				}
			}
		case "hold":
			w.gmu.Lock()
			k := fmt.Sprintf("%s|%s", w.nodes[o.R%c.N].name, o.Point)
			if w.gates[k] == nil {
				w.gates[k] = &gate{}
				w.ctx.Fault("goroutine-held-at-" + o.Point)
			}
			w.gmu.Unlock()
		case "release":
			w.releaseGate(fmt.Sprintf("%s|%s", w.nodes[o.R%c.N].name, o.Point), o.K)
			w.pump(2 * time.Millisecond)
		case "corrupt":
			w.sortInflight()
			if len(w.inflight) > 0 {
				m := w.inflight[o.K%len(w.inflight)]
				if len(m.frame) > 0 {
					m.frame = facesim.Mutate(m.frame, o.Mut, o.At, o.Val)
					m.corrupted = true
					if !w.res.Ambiguous {
						// what a router makes of a corrupted advertisement (duplicate destinations, odd costs) may
						// depend on map order inside dv; the tables are not judged in a C04 run
						w.res.Ambiguous = true
						w.ctx.Logf("step %d: routing packet corrupted; log ends here", w.step)
						if w.ctx != nil {
							w.ctx.Log = nil
						}
					}
					w.ctx.Fault("corrupt-" + m.kind + "-" + o.Mut)
				}
			}
		case "advance":
			w.pump(time.Duration(o.Ms) * time.Millisecond)
		case "linkdown":
			w.linkUp[lk(o.A%c.N, o.B%c.N)] = false
			w.ctx.Fault("link-down")
		case "linkup":
			if (o.A%c.N) != (o.B%c.N) && w.everLink[lk(o.A%c.N, o.B%c.N)] {
				w.linkUp[lk(o.A%c.N, o.B%c.N)] = true
				w.ctx.Fault("link-up")
			}
		case "crash":
			w.ctx.Fault("router-crash")
			w.stopNode(w.nodes[o.R%c.N])
		case "restart":
			if n := w.nodes[o.R%c.N]; !n.alive {
				w.ctx.Fault("router-restart")
				w.startNode(n)
			}
		case "reface":
			a, b := o.A%c.N, o.B%c.N
			w.faceOf[[2]int{a, b}] += 50
			w.ctx.Fault("neighbour-face-changed")
		case "senderr":
			if n := w.nodes[o.R%c.N]; n.face != nil {
				n.face.mu.Lock()
				n.face.failUntil = time.Now().Add(time.Duration(max(0, min(o.Ms, 2000))) * time.Millisecond)
				n.face.onFail = func() { w.sendErrs.Add(1) } // (called from the routers' goroutines)
				n.face.mu.Unlock()
			}
		case "mgmtfail":
			w.nodes[o.R%c.N].mgmtFail = min(o.K, 2)
		case "announce", "withdraw":
			n := w.nodes[o.R%c.N]
			if n.alive {
				cnt := max(o.Count, 1)
				for k := 0; k < cnt; k++ {
					p := o.Prefix
					if o.Count > 0 {
						p = fmt.Sprintf("%s/n%d", o.Prefix, k)
					}
					w.readvertise(n, o.Op, p)
				}
				changedPrefix = true
			}
		case "settle":
			if w.sc.Property == "C04" {
				// corrupted routing state need not converge: a bounded quiet phase instead of the fixed-point search
				for round := 0; round < 3; round++ {
					for _, n := range w.nodes {
						if n.alive {
							n.router.VerifHeartbeat()
						}
					}
					w.pump(20 * time.Millisecond)
					for d := 0; d < 150 && len(w.inflight) > 0; d++ {
						w.sortInflight()
						m := w.inflight[0]
						w.inflight = w.inflight[1:]
						w.deliver(m)
						w.pump(time.Millisecond)
					}
					w.pump(time.Duration(c.AdvertMs) * time.Millisecond)
				}
			} else {
				w.settle()
			}
		}
		if w.res.Violation != nil {
			break
		}
		w.pump(15 * time.Millisecond)
		w.announceSeqs()
		w.res.Steps++
		w.checkSafety()
		if w.res.Violation != nil {
			break
		}
		sd := w.stateDigest()
		w.ctx.State(sd)
		dg.U(sd)
		for _, n := range w.nodes {
			if n.alive {
				for k := range n.routes {
					if strings.HasPrefix(k.name, "/app") || strings.HasPrefix(k.name, "/svc") {
						installedPrefix = true
					}
				}
			}
		}
	}
	w.res.SimNanos = int64(w.now())
	w.res.Digest = dg.Sum()
	switch w.sc.Property {
	case "C04":
		w.res.NonTrivial = w.corruptDelivered > 0
	case "C18":
		w.res.NonTrivial = c.N >= 3 && w.maxAdvRounds >= 2
	default:
		w.res.NonTrivial = installedPrefix && changedPrefix
	}
	w.windDown()
}

// windDown ends every goroutine of every router ever started (time stops when the bubble's root returns).
func (w *world) windDown() {
	if n := w.sendErrs.Load(); n > 0 && w.ctx != nil {
		w.ctx.Faults["send-error"] += n
	}
	w.releaseGate("", 0)
	for _, n := range w.nodes {
		w.stopNode(n)
	}
	w.inflight = nil
	// neighbours time out, fetch/retry loops notice and end
	w.pump(time.Duration(w.sc.Config.DeadMs)*time.Millisecond + time.Second)
	for _, r := range w.zombies {
		r.VerifDeadcheck()
		r.VerifQuiesce() // fetch loops end even if the RIB (wrongly) still holds destinations
	}
	w.pump(9 * time.Second)
	for _, r := range w.zombies {
		r.VerifStop()
	}
	w.pump(3 * time.Second)
}

func (w *world) readvertise(n *node, verb string, prefix string) {
	verb2 := "register"
	if verb == "withdraw" {
		verb2 = "unregister"
	}
	params := (&mgmt.ControlParameters{Val: &mgmt.ControlArgs{Name: mkName(prefix)}}).Encode().Join()
	w.mseq++
	name := append(mkName("/localhost/nlsr/rib/"+verb2), enc.NewBytesComponent(enc.TypeGenericNameComponent, params),
		enc.NewStringComponent(enc.TypeGenericNameComponent, fmt.Sprintf("x%d", w.mseq)))
	ei, err := spec.Spec{}.MakeInterest(name, &ndn.InterestConfig{Nonce: utils.IdPtr(uint64(w.mseq)), Lifetime: utils.IdPtr(time.Second)}, nil, nil)
	if err != nil {
		panic("harness: MakeInterest: " + err.Error())
	}
	n.face.onPkt(enc.NewBufferReader(ei.Wire.Join()))
	if verb == "withdraw" {
		delete(n.announced, prefix)
	} else {
		n.announced[prefix] = true
	}
	w.pump(2 * time.Millisecond)
	w.recordOwnSeq(n)
}

// ---------------------------------------------------------------- oracles

type ribView struct {
	cost1, cost2 uint64
	nh1, nh2     int
}

func (w *world) bfs(src int, union bool) map[int]int {
	dist := map[int]int{src: 0}
	q := []int{src}
	for len(q) > 0 {
		x := q[0]
		q = q[1:]
		links := w.linkUp
		if union {
			links = w.everLink
		}
		ls := make([][2]int, 0, len(links))
		for l, up := range links {
			if up {
				ls = append(ls, l)
			}
		}
		sort.Slice(ls, func(i, j int) bool { return ls[i][0] < ls[j][0] || (ls[i][0] == ls[j][0] && ls[i][1] < ls[j][1]) })
		for _, l := range ls {
			y := -1
			if l[0] == x {
				y = l[1]
			} else if l[1] == x {
				y = l[0]
			}
			if y < 0 {
				continue
			}
			if !union && !w.nodes[y].alive {
				continue
			}
			if _, ok := dist[y]; !ok {
				dist[y] = dist[x] + 1
				q = append(q, y)
			}
		}
	}
	return dist
}

// checkSafety: invariants that hold at every quiescent step, converged or not.
func (w *world) checkSafety() {
	for _, n := range w.nodes {
		if !n.alive {
			continue
		}
		rib, nbrs, pfx, adv, _ := n.router.VerifTables()
		// C18: no advertisement lists a destination at or above infinity
		for _, e := range adv.Entries {
			if e.Cost >= dvconfig.CostInfinity {
				w.fail("C18/advertisement-lists-infinite-cost", "", "router %d would advertise %s with cost %d", n.id, e.Destination.Name, e.Cost)
			}
		}
		// C18: no cost below the hop distance over all links that ever existed
		union := w.bfs(n.id, true)
		for _, e := range rib {
			d := nodeIndex(e.Dest)
			if d < 0 || e.Cost1 >= dvconfig.CostInfinity {
				continue
			}
			if bd, ok := union[d]; !ok || int(e.Cost1) < bd {
				w.fail("C18/cost-below-hop-distance", "", "router %d holds cost %d to %s; no walk that short exists over links that ever existed (distance %v)", n.id, e.Cost1, e.Dest, union[d])
			}
		}
		if w.sc.Property == "C19" && n.router.VerifMgmtQueueLen() == 0 && n.mgmtFail == 0 && (n.lastFail == 0 || w.now() > n.lastFail+600*time.Millisecond) && !w.gateHeld(n) {
			w.checkInstalledRoutes(n, rib, nbrs, pfx)
			w.checkPrefixLogs(n, pfx)
		}
	}
}

// checkInstalledRoutes: the replayed register/unregister stream equals what the daemon's own tables prescribe.
func (w *world) checkInstalledRoutes(n *node, rib []ribEntryT, nbrs []nbrT, pfx []pfxT) {
	faceOfNbr := map[string]uint64{}
	for _, nb := range nbrs {
		faceOfNbr[nb.Name.String()] = nb.FaceId
	}
	pfxOf := map[string][]string{}
	for _, pr := range pfx {
		for _, p := range pr.Prefixes {
			pfxOf[pr.Name.String()] = append(pfxOf[pr.Name.String()], p.String())
		}
	}
	want := map[string]map[uint64]uint64{}
	addWant := func(name string, face uint64, cost uint64) {
		if want[name] == nil {
			want[name] = map[uint64]uint64{}
		}
		if c, ok := want[name][face]; !ok || cost < c {
			want[name][face] = cost
		}
	}
	for _, e := range rib {
		if e.Dest.Equal(n.name) || e.Cost1 >= dvconfig.CostInfinity {
			continue
		}
		type fe struct {
			face uint64
			cost uint64
		}
		var fes []fe
		if e.NextHop1 != nil {
			if f, ok := faceOfNbr[e.NextHop1.String()]; ok && e.Cost1 < dvconfig.CostInfinity {
				fes = append(fes, fe{f, e.Cost1})
			}
		}
		if e.NextHop2 != nil {
			if f, ok := faceOfNbr[e.NextHop2.String()]; ok && e.Cost2 < dvconfig.CostInfinity {
				fes = append(fes, fe{f, e.Cost2})
			}
		}
		names := append([]string{e.Dest.String() + "/32=DV"}, pfxOf[e.Dest.String()]...)
		for _, nm := range names {
			for _, f := range fes {
				addWant(nm, f.face, f.cost)
			}
		}
	}
	got := map[string]map[uint64]uint64{}
	for k, c := range n.routes {
		if k.origin != dvconfig.NlsrOrigin || k.face == 0 || strings.HasPrefix(k.name, "/localhop") || k.name == "/ndn/32=DV/32=PFS" {
			continue
		}
		if got[k.name] == nil {
			got[k.name] = map[uint64]uint64{}
		}
		got[k.name][k.face] = c
	}
	if gs, ws := routesStr(got), routesStr(want); gs != ws {
		w.fail("C19/installed-routes-differ-from-tables", c19Key(got, want), "router %d: routes registered in the forwarder {%s}; its tables prescribe {%s}", n.id, gs, ws)
	}
	// neighbour-link routes: exactly the faces of current neighbours
	for _, nb := range nbrs {
		if nb.FaceId == 0 {
			continue
		}
		k := routeKey{name: "/localhop" + nb.Name.String() + "/32=DV", face: nb.FaceId, origin: dvconfig.NlsrOrigin}
		if _, ok := n.routes[k]; !ok {
			w.fail("C19/neighbour-route-missing", "", "router %d: neighbour %s uses face %d but no route %s is registered for it", n.id, nb.Name, nb.FaceId, k.name)
		}
	}
	for k := range n.routes {
		if strings.HasPrefix(k.name, "/localhop/ndn/r") && strings.HasSuffix(k.name, "/32=DV") && k.face != 0 {
			nbn := strings.TrimSuffix(strings.TrimPrefix(k.name, "/localhop"), "/32=DV")
			if f, ok := faceOfNbr[nbn]; !ok || f != k.face {
				w.fail("C19/stale-neighbour-route", "", "router %d: route %s via face %d is registered, but that neighbour now uses face %d (known=%v)", n.id, k.name, k.face, f, ok)
			}
		}
	}
}

type ribEntryT = dvtable.VerifRibEntry

func routesStr(m map[string]map[uint64]uint64) string {
	names := make([]string, 0, len(m))
	for n := range m {
		if len(m[n]) > 0 {
			names = append(names, n)
		}
	}
	sort.Strings(names)
	var sb strings.Builder
	for _, n := range names {
		fs := make([]uint64, 0)
		for f := range m[n] {
			fs = append(fs, f)
		}
		sort.Slice(fs, func(i, j int) bool { return fs[i] < fs[j] })
		sb.WriteString(n + "=")
		for _, f := range fs {
			sb.WriteString(fmt.Sprintf("%d:%d,", f, m[n][f]))
		}
		sb.WriteString(" ")
	}
	return sb.String()
}

func c19Key(got, want map[string]map[uint64]uint64) string {
	for n, fs := range got {
		if _, ok := want[n]; !ok && len(fs) > 0 {
			if strings.HasSuffix(n, "/32=DV") {
				return "stale-router-route"
			}
			return "stale-prefix-route"
		}
	}
	for n := range want {
		if len(got[n]) == 0 {
			if strings.HasSuffix(n, "/32=DV") {
				return "missing-router-route"
			}
			return "missing-prefix-route"
		}
	}
	for n, fs := range want {
		for f, c := range fs {
			if gc, ok := got[n][f]; !ok {
				return "missing-face"
			} else if gc != c {
				return "wrong-cost"
			}
		}
		for f := range got[n] {
			if _, ok := fs[f]; !ok {
				return "stale-face"
			}
		}
	}
	return "other"
}

// checkPrefixLogs: what a peer has reconstructed for an owner equals the owner's set as of the sequence number applied.
func (w *world) checkPrefixLogs(q *node, pfx []pfxT) {
	for _, pr := range pfx {
		o := nodeIndex(pr.Name)
		if o < 0 || o >= len(w.nodes) || o == q.id {
			continue
		}
		owner := w.nodes[o]
		if pr.Known == 0 {
			if len(pr.Prefixes) != 0 {
				w.fail("C19/prefix-set-without-log", "", "router %d lists prefixes for %s without having applied any of its log", q.id, pr.Name)
			}
			continue
		}
		set, ok := owner.hist[pr.Known]
		if !ok {
			continue // sequence number of an earlier incarnation of the owner
		}
		got := []string{}
		for _, p := range pr.Prefixes {
			got = append(got, p.String())
		}
		sort.Strings(got)
		want := []string{}
		for p := range set {
			want = append(want, p)
		}
		sort.Strings(want)
		if strings.Join(got, " ") != strings.Join(want, " ") {
			w.fail("C19/prefix-log-replica-diverges", fmt.Sprintf("gap>100=%v", false), "router %d has applied %s's log up to %d and holds %v; the owner's set at that point was %v", q.id, pr.Name, pr.Known, got, want)
		}
	}
}

func (w *world) stateDigest() uint64 {
	d := kit.NewDigest()
	for _, n := range w.nodes {
		d.I(n.id)
		if !n.alive {
			d.S("down")
			continue
		}
		rib, nbrs, pfx, _, seq := n.router.VerifTables()
		// the advertisement sequence number is part of the state: a router that keeps re-advertising an
		// unchanged topology has not reached a fixed point
		d.U(seq)
		xs := []string{}
		for _, e := range rib {
			nh, nh2 := "", ""
			if e.NextHop1 != nil {
				nh = e.NextHop1.String()
			}
			if e.NextHop2 != nil {
				nh2 = e.NextHop2.String()
			}
			xs = append(xs, fmt.Sprintf("%s=%d via %s/%d via %s", e.Dest, e.Cost1, nh, e.Cost2, nh2))
		}
		d.SortedStrings(xs)
		xs = xs[:0]
		for _, nb := range nbrs {
			xs = append(xs, fmt.Sprintf("%s@%d", nb.Name, nb.FaceId))
		}
		d.SortedStrings(xs)
		xs = xs[:0]
		for _, pr := range pfx {
			ps := []string{}
			for _, p := range pr.Prefixes {
				ps = append(ps, p.String())
			}
			sort.Strings(ps)
			xs = append(xs, pr.Name.String()+":"+strings.Join(ps, ","))
		}
		d.SortedStrings(xs)
		rs := []string{}
		if n.mgmtFail > 0 || (n.lastFail != 0 && w.now() <= n.lastFail+600*time.Millisecond) {
			// a command is (or may be) inside its retry loop: which one met the failure follows the order in which
			// the daemon ranged over its maps, and so does what is still queued behind it
			rs = append(rs, "installing, a command is being retried")
		} else if q := n.router.VerifMgmtQueueLen(); q > 0 {
			// registrations in progress: which of the queued commands have been carried out so far follows the
			// same map order; only how many are left is canonical
			rs = append(rs, fmt.Sprintf("installing, %d commands queued", q))
		} else {
			for k, c := range n.routes {
				rs = append(rs, fmt.Sprintf("%s|%d|%d=%d", k.name, k.face, k.origin, c))
			}
		}
		d.SortedStrings(rs)
		if w.ctx != nil && w.ctx.Log != nil && os.Getenv("VERIF_DEBUG_STATE") != "" {
			pcs := []string{}
			for _, pr := range pfx {
				pcs = append(pcs, fmt.Sprintf("%s:%d(known %d latest %d)", pr.Name, len(pr.Prefixes), pr.Known, pr.Latest))
			}
			sort.Strings(pcs)
			sort.Strings(rs)
			w.ctx.Logf("  node %d seq %d announced %d pfx {%s} routes %v qlen %d", n.id, seq, len(n.announced), strings.Join(pcs, " "), rs, n.router.VerifMgmtQueueLen())
		}
	}
	d.I(len(w.inflight))
	return d.Sum()
}

// settle: faults stop; the hub delivers everything (in canonical order), keeps ticking heartbeats and dead
// checks, and time passes, until nothing changes any more. Then the fixed point is checked.
func (w *world) settle() {
	w.releaseGate("", 0) // faults stop: no goroutine is held back any more
	w.pump(2 * time.Millisecond)
	c := w.sc.Config
	capDeliveries := w.deliveries + 50000
	quietRounds := 0
	rounds := 0
	lastSig := ""
	needQuiet := c.DeadMs/c.AdvertMs + 3
	for quietRounds < needQuiet {
		rounds++
		if w.deliveries > capDeliveries || rounds > 400 {
			w.fail("C18/no-convergence-after-faults-stopped", fmt.Sprintf("n=%d", c.N), "tables still changing after %d heartbeat rounds and %d deliveries without faults", rounds, w.deliveries)
			return
		}
		for _, n := range w.nodes {
			if n.alive {
				n.mgmtFail = 0
				n.router.VerifHeartbeat()
			}
		}
		w.pump(5 * time.Millisecond)
		// deliver until nothing is in flight
		for guard := 0; guard < 100000; guard++ {
			w.announceSeqs()
			if len(w.inflight) == 0 {
				w.pump(120 * time.Millisecond) // fetch delays, retry sleeps, management pacing
				w.announceSeqs()
				if len(w.inflight) == 0 {
					break
				}
			}
			w.sortInflight()
			m := w.inflight[0]
			w.inflight = w.inflight[1:]
			w.deliver(m)
			w.pump(time.Millisecond)
			if w.res.Violation != nil {
				return
			}
		}
		for _, n := range w.nodes {
			if n.alive {
				n.router.VerifDeadcheck()
			}
		}
		w.pump(time.Duration(c.AdvertMs) * time.Millisecond)
		sig := fmt.Sprintf("%x", w.stateDigest())
		if sig == lastSig {
			quietRounds++
		} else {
			quietRounds = 0
			lastSig = sig
			w.maxAdvRounds++
		}
		w.checkSafety()
		if w.res.Violation != nil {
			return
		}
	}
	// ---- fixed point
	if w.sc.Config.N <= 5 {
		var up [][2]int
		all := true
		for _, n := range w.nodes {
			all = all && n.alive
		}
		for l, isUp := range w.linkUp {
			if isUp {
				up = append(up, l)
			}
		}
		if all {
			w.ctx.Probe("set:labelled topologies (n<=5, all routers up) whose fixed point was checked, of 771 connected ones:" + topologyID(w.sc.Config.N, up))
		}
	}
	for _, n := range w.nodes {
		if !n.alive {
			continue
		}
		dist := w.bfs(n.id, false)
		rib, _, pfx, _, _ := n.router.VerifTables()
		have := map[int]bool{}
		for _, e := range rib {
			d := nodeIndex(e.Dest)
			if d < 0 {
				continue
			}
			have[d] = true
			bd, reach := dist[d]
			if e.Cost1 >= dvconfig.CostInfinity {
				w.fail("C18/unreachable-destination-lingers", "", "router %d keeps an entry for %s with infinite cost after convergence", n.id, e.Dest)
				continue
			}
			if !reach || bd >= int(dvconfig.CostInfinity) {
				w.fail("C18/unreachable-destination-lingers", "", "router %d still lists %s (cost %d), which is unreachable in the final topology", n.id, e.Dest, e.Cost1)
				continue
			}
			if int(e.Cost1) != bd {
				w.fail("C18/converged-cost-not-hop-distance", "", "router %d: cost to %s is %d, hop distance is %d", n.id, e.Dest, e.Cost1, bd)
				continue
			}
			if d != n.id {
				nh := -1
				if e.NextHop1 != nil {
					nh = nodeIndex(e.NextHop1)
				}
				ok := nh >= 0 && w.linkUp[lk(n.id, nh)] && w.nodes[nh].alive
				if ok {
					dn := w.bfs(nh, false)
					ok = dn[d] == bd-1
					if _, r := dn[d]; !r {
						ok = false
					}
				}
				if !ok {
					w.fail("C18/next-hop-not-on-shortest-path", "", "router %d reaches %s (distance %d) via next hop r%d, which is not a neighbour on a shortest path", n.id, e.Dest, bd, nh)
				}
			}
		}
		for d, bd := range dist {
			if bd < int(dvconfig.CostInfinity) && !have[d] {
				w.fail("C18/reachable-destination-missing", "", "router %d has no entry for r%d although it is %d hops away in the final topology", n.id, d, bd)
			}
		}
		for _, e := range rib {
			if e.NextHop1 != nil && e.Cost1 < dvconfig.CostInfinity {
				if w.finalNH == nil {
					w.finalNH = map[string]string{}
				}
				w.finalNH[fmt.Sprintf("r%d>%s", n.id, e.Dest)] = e.NextHop1.String()
				// With two or more neighbours on shortest paths the tie is between them: the entry's second
				// next hop and cost are then determined by the topology and the tie-break alone (each such
				// neighbour offers cost-1, and none of them routes through this router).
				if d := nodeIndex(e.Dest); d >= 0 && d != n.id {
					tied := 0
					for _, nb := range w.nodes {
						if nb.id != n.id && nb.alive && w.linkUp[lk(n.id, nb.id)] {
							if dn, ok := w.bfs(nb.id, false)[d]; ok && dn == dist[d]-1 {
								tied++
							}
						}
					}
					if tied >= 2 {
						nh2 := "none"
						if e.NextHop2 != nil {
							nh2 = e.NextHop2.String()
						}
						w.finalNH[fmt.Sprintf("r%d>%s (second of %d tied)", n.id, e.Dest, tied)] = fmt.Sprintf("%s at cost %d", nh2, e.Cost2)
						w.ctx.Probe("fixed-point/equal-cost-tie")
					}
				}
			}
		}
		if w.sc.Property == "C19" {
			// at quiescence every reachable owner's log is fully applied
			for _, pr := range pfx {
				o := nodeIndex(pr.Name)
				if o < 0 || o == n.id || o >= len(w.nodes) || !w.nodes[o].alive {
					continue
				}
				if _, reach := dist[o]; !reach {
					continue
				}
				if pr.Known != w.nodes[o].lastSeq {
					w.fail("C19/prefix-log-not-caught-up", "", "router %d has applied %s's log up to %d; the owner is at %d and reachable, faults stopped", n.id, pr.Name, pr.Known, w.nodes[o].lastSeq)
				}
			}
			for _, on := range w.nodes {
				if on.alive && on.id != n.id {
					if _, reach := dist[on.id]; reach && len(on.announced) > 0 {
						found := false
						for _, pr := range pfx {
							if pr.Name.Equal(on.name) {
								found = true
							}
						}
						if !found {
							w.fail("C19/prefix-log-not-caught-up", "unknown-owner", "router %d knows nothing of reachable r%d's prefixes", n.id, on.id)
						}
					}
				}
			}
		}
	}
	// "ties are broken the same way every time": routers started afresh on the final topology, fed in plain
	// first-in-first-out order, must choose the same next hops as this history did.
	if w.sc.Property == "C18" && w.parent == nil && w.res.Violation == nil {
		c2 := Config{N: c.N, AdvertMs: c.AdvertMs, DeadMs: c.DeadMs, Passive: c.Passive}
		for l, up := range w.linkUp {
			if up && w.nodes[l[0]].alive && w.nodes[l[1]].alive {
				c2.Links = append(c2.Links, l)
			}
		}
		sort.Slice(c2.Links, func(i, j int) bool {
			return c2.Links[i][0] < c2.Links[j][0] || (c2.Links[i][0] == c2.Links[j][0] && c2.Links[i][1] < c2.Links[j][1])
		})
		for _, n := range w.nodes {
			if !n.alive {
				c2.Late = append(c2.Late, n.id)
			}
		}
		sc2 := &kit.Scenario[Config, Op]{Property: "C18", Config: c2, Ops: []Op{{Op: "settle"}}}
		w2 := &world{sc: sc2, res: &kit.Result{}, linkUp: map[[2]int]bool{}, everLink: map[[2]int]bool{}, faceOf: map[[2]int]uint64{},
			pending: map[string]map[int]bool{}, notified: map[string]uint64{}, signer: w.signer, parent: w}
		w2.run()
		if w2.res.Violation == nil {
			keys := make([]string, 0, len(w.finalNH))
			for k := range w.finalNH {
				keys = append(keys, k)
			}
			sort.Strings(keys)
			for _, k := range keys {
				if nh2, ok := w2.finalNH[k]; ok && nh2 != w.finalNH[k] {
					w.fail("C18/tie-break-depends-on-history", "", "%s: next hop %s after this history, %s when the same topology converges from a fresh start", k, w.finalNH[k], nh2)
					break
				}
			}
			w.ctx.Probe("fresh-world-comparison")
		}
	}
}

type nbrT = dvtable.VerifNeighbor

type pfxT = dvtable.VerifPrefixRouter
