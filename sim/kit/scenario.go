package kit

import (
	"encoding/json"
	"fmt"
	"hash/fnv"
	"os"
	"regexp"
	"runtime"
	"sort"
	"strings"
	"testing"
)

const KitVersion = 1

// Violation describes one broken sub-rule of a property.
//
// Class names the sub-rule (stable across inputs). Key identifies the specific
// call site / input shape / history shape that fails; known findings are
// matched on (Class, Key) so a different violation of the same property is
// still reported. Detail is free text for the reader.
type Violation struct {
	Class  string `json:"class"`
	Key    string `json:"key,omitempty"`
	Step   int    `json:"step"`
	Detail string `json:"detail,omitempty"`
}

func (v *Violation) Same(o *Violation) bool {
	return v != nil && o != nil && v.Class == o.Class && v.Key == o.Key
}

// Scenario is the replay-file envelope: configuration plus an explicit list of
// operations and faults. Executing it never consults a PRNG.
type Scenario[C any, O any] struct {
	Property   string     `json:"property"`
	Engine     string     `json:"engine"`
	Seed       uint64     `json:"seed"`
	KitVersion int        `json:"kit_version"`
	Config     C          `json:"config"`
	Ops        []O        `json:"ops"`
	Violation  *Violation `json:"violation,omitempty"`
}

func (s *Scenario[C, O]) clone() *Scenario[C, O] {
	// deep copy through JSON so engines may hold pointers/slices in ops
	b, err := json.Marshal(s)
	if err != nil {
		panic(err)
	}
	n := new(Scenario[C, O])
	if err := json.Unmarshal(b, n); err != nil {
		panic(err)
	}
	return n
}

// WithOps returns a copy of the envelope with a different op list (ops shared).
func (s *Scenario[C, O]) WithOps(ops []O) *Scenario[C, O] {
	n := *s
	n.Ops = ops
	n.Violation = nil
	return &n
}

// Result is what one executed scenario reports.
type Result struct {
	Violation  *Violation
	NonTrivial bool   // by the property's stated rule
	Digest     uint64 // canonical end-of-run digest (distinctness measure)
	SimNanos   int64  // simulated time covered
	Steps      int
	// Ambiguous: from some step on, what the code under test does legitimately depends on a choice the simulator
	// does not own (Go map iteration order) and the oracle accepts every outcome; the determinism self-test
	// compares such a run only up to that step.
	Ambiguous bool
}

// Ctx collects reach statistics during a run. A nil *Ctx is valid and ignores
// everything (used while shrinking so statistics are not polluted).
type Ctx struct {
	Faults map[string]int64
	Probes map[string]int64
	sketch []uint64
	Log    func(string) // optional step log sink (determinism self-test)
}

const sketchBits = 1 << 22

func NewCtx() *Ctx {
	return &Ctx{Faults: map[string]int64{}, Probes: map[string]int64{}, sketch: make([]uint64, sketchBits/64)}
}

func (c *Ctx) Fault(kind string) {
	if c != nil {
		c.Faults[kind]++
	}
}
func (c *Ctx) Probe(name string) {
	if c != nil {
		c.Probes[name]++
	}
}
func (c *Ctx) ProbeN(name string, n int) {
	if c != nil && n != 0 {
		c.Probes[name] += int64(n)
	}
}

// State records a canonical state digest reached at a step (linear-counting sketch).
func (c *Ctx) State(d uint64) {
	if c == nil {
		return
	}
	x := d
	h := splitmix(&x) % sketchBits
	c.sketch[h/64] |= 1 << (h % 64)
	if c.Log != nil {
		c.Log(fmt.Sprintf("state %016x", d))
	}
}

func (c *Ctx) Logf(format string, a ...any) {
	if c != nil && c.Log != nil {
		c.Log(fmt.Sprintf(format, a...))
	}
}

// Digest is an FNV-1a accumulator for canonical state.
type Digest struct{ h uint64 }

func NewDigest() *Digest { return &Digest{h: 14695981039346656037} }
func (d *Digest) B(b []byte) *Digest {
	for _, c := range b {
		d.h ^= uint64(c)
		d.h *= 1099511628211
	}
	d.h ^= 0xff
	d.h *= 1099511628211
	return d
}
func (d *Digest) S(s string) *Digest { return d.B([]byte(s)) }
func (d *Digest) U(v uint64) *Digest {
	for i := 0; i < 8; i++ {
		d.h ^= (v >> (8 * i)) & 0xff
		d.h *= 1099511628211
	}
	return d
}
func (d *Digest) I(v int) *Digest { return d.U(uint64(int64(v))) }
func (d *Digest) Sum() uint64    { return d.h }

// SortedStrings digests a set of strings independent of order.
func (d *Digest) SortedStrings(xs []string) *Digest {
	ys := append([]string(nil), xs...)
	sort.Strings(ys)
	for _, y := range ys {
		d.S(y)
	}
	return d.U(uint64(len(ys)))
}

func HashString(s string) uint64 {
	h := fnv.New64a()
	h.Write([]byte(s))
	return h.Sum64()
}

// Engine is implemented once per simulation engine.
type Engine[C any, O any] interface {
	Name() string
	// Generate builds a scenario as data from the PRNG. prop selects the
	// workload/oracle emphasis; tier is "quick" or "thorough".
	Generate(prop string, r *Rand, tier string) *Scenario[C, O]
	// Run executes the scenario exactly and evaluates the oracles of sc.Property.
	Run(t *testing.T, ctx *Ctx, sc *Scenario[C, O]) *Result
	// Simplify proposes strictly simpler variants (argument simplification);
	// may return nil.
	Simplify(sc *Scenario[C, O]) []*Scenario[C, O]
}

// Known is one entry of known_findings.json as handed to workers.
type Known struct {
	Property string `json:"property"`
	Class    string `json:"class"`
	KeyRe    string `json:"key_re,omitempty"`
	Status   string `json:"status"`
	What     string `json:"what"`
	re       *regexp.Regexp
}

func (k *Known) Matches(prop string, v *Violation) bool {
	if k.Status != "known" || k.Property != prop || k.Class != v.Class {
		return false
	}
	if k.KeyRe == "" {
		return true
	}
	if k.re == nil {
		k.re = regexp.MustCompile("^(?:" + k.KeyRe + ")$")
	}
	return k.re.MatchString(v.Key)
}

// PanicSite extracts the innermost frame inside the repository under test from
// the current stack (called from a deferred recover handler).
func PanicSite() string {
	pcs := make([]uintptr, 64)
	n := runtime.Callers(3, pcs)
	frames := runtime.CallersFrames(pcs[:n])
	first := ""
	for {
		f, more := frames.Next()
		if strings.Contains(f.Function, "named-data/ndnd/") {
			fn := f.Function[strings.Index(f.Function, "named-data/ndnd/")+len("named-data/ndnd/"):]
			return fn
		}
		if first == "" && !strings.HasPrefix(f.Function, "runtime.") {
			first = f.Function
		}
		if !more {
			break
		}
	}
	return "harness:" + first
}

// SafeRun executes one scenario; a panic that unwinds to the caller becomes a
// violation of class "<prop>/panic" keyed by the innermost repository frame.
// A panic whose innermost non-runtime frame is harness code is re-raised: that
// is a harness bug, never a VIOLATION.
func SafeRun[C any, O any](t *testing.T, eng Engine[C, O], ctx *Ctx, sc *Scenario[C, O]) (res *Result) {
	defer func() {
		if p := recover(); p != nil {
			site := PanicSite()
			if strings.HasPrefix(site, "harness:") {
				fmt.Fprintf(os.Stderr, "HARNESS-PANIC %v at %s\n", p, site)
				buf := make([]byte, 1<<20)
				buf = buf[:runtime.Stack(buf, true)]
				os.Stderr.Write(buf)
				os.Exit(2)
			}
			msg := fmt.Sprint(p)
			if len(msg) > 300 {
				msg = msg[:300]
			}
			res = &Result{Violation: &Violation{Class: sc.Property + "/panic", Key: site, Step: -1, Detail: msg}}
		}
	}()
	return eng.Run(t, ctx, sc)
}
