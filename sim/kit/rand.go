// Package kit is the shared simulator kit: seeded PRNG, scenario envelope,
// generic run/shrink/replay driver, statistics and digests.
package kit

// Rand is a xoshiro256** generator seeded through splitmix64. It is the only
// source of choices in scenario generation; it is never consulted while a
// scenario executes.
type Rand struct{ s [4]uint64 }

func splitmix(x *uint64) uint64 {
	*x += 0x9e3779b97f4a7c15
	z := *x
	z = (z ^ (z >> 30)) * 0xbf58476d1ce4e5b9
	z = (z ^ (z >> 27)) * 0x94d049bb133111eb
	return z ^ (z >> 31)
}

func NewRand(seed uint64) *Rand {
	r := &Rand{}
	x := seed
	for i := range r.s {
		r.s[i] = splitmix(&x)
	}
	return r
}

func rotl(x uint64, k uint) uint64 { return (x << k) | (x >> (64 - k)) }

func (r *Rand) Uint64() uint64 {
	res := rotl(r.s[1]*5, 7) * 9
	t := r.s[1] << 17
	r.s[2] ^= r.s[0]
	r.s[3] ^= r.s[1]
	r.s[1] ^= r.s[2]
	r.s[0] ^= r.s[3]
	r.s[2] ^= t
	r.s[3] = rotl(r.s[3], 45)
	return res
}

// Intn returns a value in [0,n). n<=0 returns 0.
func (r *Rand) Intn(n int) int {
	if n <= 1 {
		return 0
	}
	return int(r.Uint64() % uint64(n))
}

// Range returns a value in [lo,hi] inclusive.
func (r *Rand) Range(lo, hi int) int {
	if hi <= lo {
		return lo
	}
	return lo + r.Intn(hi-lo+1)
}

func (r *Rand) Bool() bool { return r.Uint64()&1 == 1 }

func (r *Rand) Float() float64 { return float64(r.Uint64()>>11) / float64(1<<53) }

// Chance returns true with probability p.
func (r *Rand) Chance(p float64) bool { return r.Float() < p }

// Pick returns a uniformly chosen element.
func Pick[T any](r *Rand, xs []T) T { return xs[r.Intn(len(xs))] }

// Weighted picks index i with probability w[i]/sum(w).
func (r *Rand) Weighted(w []int) int {
	sum := 0
	for _, x := range w {
		sum += x
	}
	if sum <= 0 {
		return 0
	}
	k := r.Intn(sum)
	for i, x := range w {
		if k < x {
			return i
		}
		k -= x
	}
	return len(w) - 1
}

// Perm returns a random permutation of 0..n-1.
func (r *Rand) Perm(n int) []int {
	p := make([]int, n)
	for i := range p {
		p[i] = i
	}
	for i := n - 1; i > 0; i-- {
		j := r.Intn(i + 1)
		p[i], p[j] = p[j], p[i]
	}
	return p
}

// Bytes returns n pseudo-random bytes.
func (r *Rand) Bytes(n int) []byte {
	b := make([]byte, n)
	for i := 0; i < n; i += 8 {
		v := r.Uint64()
		for j := 0; j < 8 && i+j < n; j++ {
			b[i+j] = byte(v >> (8 * j))
		}
	}
	return b
}

// Mix derives a run seed from the batch seed, a label and a run index.
func Mix(seed uint64, label string, idx uint64) uint64 {
	x := seed ^ 0x6a09e667f3bcc908
	h := splitmix(&x)
	for i := 0; i < len(label); i++ {
		x ^= uint64(label[i]) * 0x100000001b3
		h ^= splitmix(&x)
	}
	x ^= idx * 0xd6e8feb86659fd93
	h ^= splitmix(&x)
	return h
}
