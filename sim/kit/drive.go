package kit

import (
	"encoding/base64"
	"encoding/binary"
	"encoding/json"
	"fmt"
	"os"
	"os/exec"
	"path/filepath"
	"strings"
	"testing"
	"time"
)

// Args is the worker command, passed as JSON in env VERIF_ARGS.
type Args struct {
	Mode      string   `json:"mode"` // work | replay | one | shrinkhard | log
	Prop      string   `json:"prop"`
	Engine    string   `json:"engine"`
	Tier      string   `json:"tier"`
	Seed      uint64   `json:"seed"`
	Worker    int      `json:"worker"`
	Workers   int      `json:"workers"`
	Runs      int      `json:"runs"`
	From      int      `json:"from"` // first run index to consider (restart after crash)
	Out       string   `json:"out"`
	Journal   string   `json:"journal"`
	ReplayDir string   `json:"replay_dir"`
	File      string   `json:"file"`
	Run       int      `json:"run"`
	MaxWallS  float64  `json:"max_wall_s"`
	MaxViol   int      `json:"max_viol"`
	Known     []*Known `json:"known"`
	Self      string   `json:"self"` // path of this binary (shrinkhard)
}

// WorkerOut is what a worker writes to Args.Out.
type WorkerOut struct {
	Done       bool               `json:"done"`
	Truncated  bool               `json:"truncated"`
	Runs       int                `json:"runs"`
	NonTrivial int                `json:"nontrivial"`
	Digests    string             `json:"digests"` // base64 of little-endian uint64 end digests of non-trivial runs
	Sketch     string             `json:"sketch"`  // base64 bitmap of step-state digests
	SimNanos   int64              `json:"sim_nanos"`
	Steps      int64              `json:"steps"`
	Faults     map[string]int64   `json:"faults"`
	Probes     map[string]int64   `json:"probes"`
	Samples    []json.RawMessage  `json:"samples"`
	Violations []ViolationReport  `json:"violations"`
	KnownHits  map[string]int64   `json:"known_hits"`
	KnownEx    map[string]string  `json:"known_examples"`
	ShrinkEval int                `json:"shrink_evals"`
	LastRun    int                `json:"last_run"`
}

type ViolationReport struct {
	Run       int        `json:"run"`
	Seed      uint64     `json:"seed"`
	Violation *Violation `json:"violation"`
	Replay    string     `json:"replay"`
	OpsBefore int        `json:"ops_before"`
	OpsAfter  int        `json:"ops_after"`
}

func ParseArgs() *Args {
	a := &Args{}
	raw := os.Getenv("VERIF_ARGS")
	if raw == "" {
		return nil
	}
	if err := json.Unmarshal([]byte(raw), a); err != nil {
		fmt.Fprintln(os.Stderr, "bad VERIF_ARGS:", err)
		os.Exit(2)
	}
	if a.Workers <= 0 {
		a.Workers = 1
	}
	if a.MaxViol <= 0 {
		a.MaxViol = 1
	}
	return a
}

func writeJSON(path string, v any) {
	b, err := json.MarshalIndent(v, "", " ")
	if err != nil {
		panic(err)
	}
	tmp := path + ".tmp"
	if err := os.WriteFile(tmp, b, 0o644); err != nil {
		fmt.Fprintln(os.Stderr, "write:", err)
		os.Exit(2)
	}
	os.Rename(tmp, path)
}

func findKnown(known []*Known, prop string, v *Violation) *Known {
	for _, k := range known {
		if k.Matches(prop, v) {
			return k
		}
	}
	return nil
}

// Drive runs the worker command for one engine.
func Drive[C any, O any](t *testing.T, eng Engine[C, O], a *Args) {
	switch a.Mode {
	case "work":
		driveWork(t, eng, a)
	case "replay":
		driveReplay(t, eng, a)
	case "one":
		driveOne(t, eng, a)
	case "shrinkhard":
		driveShrinkHard(t, eng, a)
	case "log":
		driveLog(t, eng, a)
	default:
		fmt.Fprintln(os.Stderr, "unknown mode", a.Mode)
		os.Exit(2)
	}
}

func genRun[C any, O any](eng Engine[C, O], a *Args, r int) *Scenario[C, O] {
	rs := Mix(a.Seed, a.Prop+"/"+eng.Name(), uint64(r))
	sc := eng.Generate(a.Prop, NewRand(rs), a.Tier)
	sc.Property = a.Prop
	sc.Engine = eng.Name()
	sc.Seed = rs
	sc.KitVersion = KitVersion
	return sc
}

func driveWork[C any, O any](t *testing.T, eng Engine[C, O], a *Args) {
	start := time.Now()
	ctx := NewCtx()
	out := &WorkerOut{Faults: ctx.Faults, Probes: ctx.Probes, KnownHits: map[string]int64{}, KnownEx: map[string]string{}}
	digests := map[uint64]struct{}{}
	var jf *os.File
	if a.Journal != "" {
		jf, _ = os.OpenFile(a.Journal, os.O_CREATE|os.O_WRONLY|os.O_TRUNC, 0o644)
	}
	var jb [8]byte
	first := a.Worker
	for first < a.From {
		first += a.Workers
	}
	out.LastRun = -1
	for r := first; r < a.Runs; r += a.Workers {
		if a.MaxWallS > 0 && time.Since(start).Seconds() > a.MaxWallS {
			out.Truncated = true
			break
		}
		if jf != nil {
			binary.LittleEndian.PutUint64(jb[:], uint64(r))
			jf.WriteAt(jb[:], 0)
		}
		sc := genRun(eng, a, r)
		res := SafeRun(t, eng, ctx, sc)
		out.Runs++
		out.LastRun = r
		out.SimNanos += res.SimNanos
		out.Steps += int64(res.Steps)
		if res.Violation != nil {
			if k := findKnown(a.Known, a.Prop, res.Violation); k != nil {
				// a listed finding: shrinking keeps (class, key), so only the first example is minimised
				id := k.Class + " " + k.KeyRe
				out.KnownHits[id]++
				if _, ok := out.KnownEx[id]; !ok {
					min, evals := Shrink(t, eng, sc, res.Violation, 300, 20*time.Second)
					out.ShrinkEval += evals
					b, _ := json.Marshal(min)
					out.KnownEx[id] = string(b)
				}
				continue
			}
			min, evals := Shrink(t, eng, sc, res.Violation, 1500, 60*time.Second)
			out.ShrinkEval += evals
			if k := findKnown(a.Known, a.Prop, min.Violation); k != nil {
				id := k.Class + " " + k.KeyRe
				out.KnownHits[id]++
				if _, ok := out.KnownEx[id]; !ok {
					b, _ := json.Marshal(min)
					out.KnownEx[id] = string(b)
				}
				continue
			}
			path := filepath.Join(a.ReplayDir, fmt.Sprintf("%s-%d-r%d.json", a.Prop, a.Seed, r))
			os.MkdirAll(a.ReplayDir, 0o755)
			writeJSON(path, min)
			out.Violations = append(out.Violations, ViolationReport{Run: r, Seed: sc.Seed, Violation: min.Violation, Replay: path,
				OpsBefore: len(sc.Ops), OpsAfter: len(min.Ops)})
			if len(out.Violations) >= a.MaxViol {
				break
			}
			continue
		}
		if res.NonTrivial {
			out.NonTrivial++
			digests[res.Digest] = struct{}{}
			if len(out.Samples) < 3 && len(sc.Ops) <= 40 {
				b, _ := json.Marshal(sc)
				if len(b) < 20000 {
					out.Samples = append(out.Samples, b)
				}
			}
		}
	}
	buf := make([]byte, 0, 8*len(digests))
	for d := range digests {
		buf = binary.LittleEndian.AppendUint64(buf, d)
	}
	out.Digests = base64.StdEncoding.EncodeToString(buf)
	sk := make([]byte, 0, len(ctx.sketch)*8)
	for _, w := range ctx.sketch {
		sk = binary.LittleEndian.AppendUint64(sk, w)
	}
	out.Sketch = base64.StdEncoding.EncodeToString(sk)
	out.Done = true
	writeJSON(a.Out, out)
}

// ReplayOut is written by replay / one modes.
type ReplayOut struct {
	Violation *Violation `json:"violation"`
	Expected  *Violation `json:"expected,omitempty"`
	Same      bool       `json:"same"`
	Known     string     `json:"known,omitempty"`
	Ops       int        `json:"ops"`
	Attempts  int        `json:"attempts,omitempty"`
}

const replayAttempts = 16

func loadScenario[C any, O any](path string) *Scenario[C, O] {
	b, err := os.ReadFile(path)
	if err != nil {
		fmt.Fprintln(os.Stderr, "replay:", err)
		os.Exit(2)
	}
	sc := new(Scenario[C, O])
	if err := json.Unmarshal(b, sc); err != nil {
		fmt.Fprintln(os.Stderr, "replay: bad scenario:", err)
		os.Exit(2)
	}
	return sc
}

func driveReplay[C any, O any](t *testing.T, eng Engine[C, O], a *Args) {
	sc := loadScenario[C, O](a.File)
	exp := sc.Violation
	if n := a.Runs; n > 1 { // flakiness probe: how often does this scenario fail?
		hits := map[string]int{}
		for i := 0; i < n; i++ {
			r := SafeRun(t, eng, nil, sc)
			k := "ok"
			if r.Violation != nil {
				k = fmt.Sprintf("%s|%s|step %d|%s", r.Violation.Class, r.Violation.Key, r.Violation.Step, r.Violation.Detail)
			}
			hits[k]++
		}
		for k, v := range hits {
			fmt.Fprintf(os.Stderr, "REPEAT %d x %s\n", v, k)
		}
	}
	// The scenario fixes every choice the simulator makes. What it cannot fix is the order in which the code under
	// test iterates its own Go maps (randomised inside the runtime, no seam): on a tree where the property holds
	// the outcome does not depend on it (determinism self-test), on a broken tree it may. A replay therefore
	// re-executes the scenario until the recorded violation shows, at most replayAttempts times.
	var rctx *Ctx
	if os.Getenv("VERIF_REPLAY_LOG") != "" { // debugging aid: print the step log of the first execution
		rctx = NewCtx()
		rctx.Log = func(s string) { fmt.Fprintln(os.Stderr, s) }
	}
	res := SafeRun(t, eng, rctx, sc)
	attempts := 1
	for exp != nil && (res.Violation == nil || !exp.Same(res.Violation)) && attempts < replayAttempts {
		r2 := SafeRun(t, eng, nil, sc)
		attempts++
		if r2.Violation != nil && exp.Same(r2.Violation) {
			res = r2
		}
	}
	if attempts > 1 {
		fmt.Fprintf(os.Stderr, "replay: %d execution(s) of the scenario\n", attempts)
	}
	ro := &ReplayOut{Violation: res.Violation, Expected: exp, Ops: len(sc.Ops), Attempts: attempts}
	if res.Violation != nil {
		ro.Same = exp == nil || exp.Same(res.Violation)
		if k := findKnown(a.Known, sc.Property, res.Violation); k != nil {
			ro.Known = k.What
		}
	}
	writeJSON(a.Out, ro)
}

// driveOne regenerates run a.Run from the seed and executes it (used by the
// driver to confirm a process-killing crash); it also writes the scenario to
// a.File so that a hard shrink can start from it.
func driveOne[C any, O any](t *testing.T, eng Engine[C, O], a *Args) {
	sc := genRun(eng, a, a.Run)
	if a.File != "" {
		writeJSON(a.File, sc)
	}
	res := SafeRun(t, eng, nil, sc)
	writeJSON(a.Out, &ReplayOut{Violation: res.Violation, Ops: len(sc.Ops)})
}

// driveLog executes run a.Run with step logging on (determinism self-test).
func driveLog[C any, O any](t *testing.T, eng Engine[C, O], a *Args) {
	f, err := os.Create(a.Out)
	if err != nil {
		os.Exit(2)
	}
	defer f.Close()
	for r := a.Run; r < a.Run+a.Runs; r++ {
		sc := genRun(eng, a, r)
		ctx := NewCtx()
		ctx.Log = func(s string) { fmt.Fprintln(f, s) }
		fmt.Fprintf(f, "run %d seed %d ops %d\n", r, sc.Seed, len(sc.Ops))
		res := SafeRun(t, eng, ctx, sc)
		v := "-"
		if res.Violation != nil {
			v = res.Violation.Class + "|" + res.Violation.Key
		}
		if res.Ambiguous {
			fmt.Fprintf(f, "end ambiguous viol %s\n", v)
			continue
		}
		fmt.Fprintf(f, "end digest %016x nontrivial %v steps %d sim %d viol %s\n", res.Digest, res.NonTrivial, res.Steps, res.SimNanos, v)
	}
}

// Shrink minimises a failing scenario: ddmin over the op list, then single-op
// removal, then engine-proposed argument simplifications, accepting a
// candidate only if it fails with the same (Class, Key).
func Shrink[C any, O any](t *testing.T, eng Engine[C, O], sc *Scenario[C, O], v *Violation, maxEvals int, maxWall time.Duration) (*Scenario[C, O], int) {
	evals := 0
	start := time.Now()
	test := func(c *Scenario[C, O]) *Violation {
		evals++
		res := SafeRun(t, eng, nil, c)
		if res.Violation != nil && res.Violation.Same(v) {
			// accept a smaller scenario only if it fails twice in a row (keeps replays of map-order dependent
			// failures likely to reproduce)
			if r2 := SafeRun(t, eng, nil, c); r2.Violation != nil && r2.Violation.Same(v) {
				return res.Violation
			}
		}
		return nil
	}
	return shrinkWith(eng, sc, v, test, &evals, maxEvals, start, maxWall), evals
}

func shrinkWith[C any, O any](eng Engine[C, O], sc *Scenario[C, O], v *Violation, test func(*Scenario[C, O]) *Violation,
	evals *int, maxEvals int, start time.Time, maxWall time.Duration) *Scenario[C, O] {
	cur := sc.WithOps(sc.Ops)
	cur.Violation = v
	budget := func() bool { return *evals < maxEvals && time.Since(start) < maxWall }
	// truncate after the failing step first
	if v.Step >= 0 && v.Step+1 < len(cur.Ops) {
		c := cur.WithOps(append([]O(nil), cur.Ops[:v.Step+1]...))
		if nv := test(c); nv != nil {
			c.Violation = nv
			cur = c
		}
	}
	// ddmin
	n := 2
	for len(cur.Ops) >= 2 && budget() {
		chunk := (len(cur.Ops) + n - 1) / n
		reduced := false
		for i := 0; i < len(cur.Ops) && budget(); i += chunk {
			j := i + chunk
			if j > len(cur.Ops) {
				j = len(cur.Ops)
			}
			ops := append(append([]O(nil), cur.Ops[:i]...), cur.Ops[j:]...)
			c := cur.WithOps(ops)
			if nv := test(c); nv != nil {
				c.Violation = nv
				cur = c
				if n > 2 {
					n--
				}
				reduced = true
				break
			}
		}
		if !reduced {
			if chunk <= 1 {
				break
			}
			n *= 2
			if n > len(cur.Ops) {
				n = len(cur.Ops)
			}
		}
	}
	// argument simplification to fixpoint
	for progress := true; progress && budget(); {
		progress = false
		for _, c := range eng.Simplify(cur) {
			if !budget() {
				break
			}
			c.Violation = nil
			if nv := test(c); nv != nil {
				c.Violation = nv
				cur = c
				progress = true
				break
			}
		}
	}
	return cur
}

// driveShrinkHard minimises a scenario whose failure kills the process: each
// candidate is executed in a child process (mode replay) and counts as failing
// iff the child dies abnormally (no result file) with the same crash key, as
// judged by CrashKey over its stderr.
func driveShrinkHard[C any, O any](t *testing.T, eng Engine[C, O], a *Args) {
	sc := loadScenario[C, O](a.File)
	v := sc.Violation
	if v == nil {
		fmt.Fprintln(os.Stderr, "shrinkhard: scenario has no violation")
		os.Exit(2)
	}
	dir, _ := os.MkdirTemp(filepath.Dir(a.Out), "shrink")
	defer os.RemoveAll(dir)
	evals := 0
	test := func(c *Scenario[C, O]) *Violation {
		evals++
		cf := filepath.Join(dir, "cand.json")
		of := filepath.Join(dir, "cand.out")
		os.Remove(of)
		writeJSON(cf, c)
		args, _ := json.Marshal(&Args{Mode: "replay", File: cf, Out: of, Prop: a.Prop, Engine: a.Engine})
		cmd := exec.Command(a.Self, "-test.run", "^TestSim$", "-test.timeout", "120s")
		cmd.Env = append(os.Environ(), "VERIF_ARGS="+string(args))
		outb, err := cmd.CombinedOutput()
		if _, serr := os.Stat(of); serr == nil {
			// child completed; in-process violation?
			b, _ := os.ReadFile(of)
			ro := &ReplayOut{}
			json.Unmarshal(b, ro)
			if ro.Violation != nil && ro.Violation.Same(v) {
				return ro.Violation
			}
			return nil
		}
		if err == nil {
			return nil
		}
		cv := CrashViolation(a.Prop, string(outb))
		if cv.Same(v) {
			return cv
		}
		return nil
	}
	min := shrinkWith(eng, sc, v, test, &evals, 400, time.Now(), 10*time.Minute)
	writeJSON(a.Out, min)
}

// CrashViolation classifies the stderr of a process that died while running a
// scenario: Go panic in a non-recoverable goroutine, runtime fatal error,
// os.Exit from log.Fatal, or timeout.
func CrashViolation(prop, stderr string) *Violation {
	lines := strings.Split(stderr, "\n")
	kind, msg, site := "exit", "", ""
	for i, l := range lines {
		if strings.HasPrefix(l, "panic: ") || strings.HasPrefix(l, "fatal error: ") {
			if strings.HasPrefix(l, "panic: test timed out") {
				kind, msg = "timeout", l
				break
			}
			kind = "panic"
			if strings.HasPrefix(l, "fatal error: ") {
				kind = "fatal"
			}
			msg = l
			for _, m := range lines[i+1:] {
				m = strings.TrimSpace(m)
				if j := strings.Index(m, "named-data/ndnd/"); j >= 0 && !strings.HasPrefix(m, "/") && strings.Contains(m, "(") {
					site = m[j+len("named-data/ndnd/"):]
					if k := strings.LastIndex(site, "("); k > 0 {
						site = site[:k]
					}
					break
				}
			}
			break
		}
	}
	if len(msg) > 200 {
		msg = msg[:200]
	}
	if kind == "fatal" && site == "" {
		site = strings.TrimPrefix(msg, "fatal error: ")
	}
	return &Violation{Class: prop + "/crash-" + kind, Key: site, Step: -1, Detail: msg}
}

// PeekScenario reads the property id and engine name of a scenario file.
func PeekScenario(path string) (string, string) {
	b, err := os.ReadFile(path)
	if err != nil {
		fmt.Fprintln(os.Stderr, "replay:", err)
		os.Exit(2)
	}
	var x struct {
		Property string `json:"property"`
		Engine   string `json:"engine"`
	}
	json.Unmarshal(b, &x)
	return x.Property, x.Engine
}
