// Package mgmtsim runs the whole forwarder - management thread with all its
// modules, internal face, forwarding thread(s), link services of application
// faces on simulated transports - inside one synctest bubble, drives it with
// histories of control commands and dataset requests from local and non-local
// faces, and compares responses and table effects with a command-level
// reference model. Property C17.
package mgmtsim

import (
	"encoding/json"
	"fmt"
	"math"
	"runtime"
	"sort"
	"strings"
	"testing"
	"testing/synctest"
	"time"

	"github.com/named-data/ndnd/fw/core"
	"github.com/named-data/ndnd/fw/defn"
	"github.com/named-data/ndnd/fw/dispatch"
	"github.com/named-data/ndnd/fw/face"
	"github.com/named-data/ndnd/fw/fw"
	fwmgmt "github.com/named-data/ndnd/fw/mgmt"
	"github.com/named-data/ndnd/fw/table"
	enc "github.com/named-data/ndnd/std/encoding"
	"github.com/named-data/ndnd/std/ndn"
	mgmt "github.com/named-data/ndnd/std/ndn/mgmt_2022"
	spec "github.com/named-data/ndnd/std/ndn/spec_2022"
	"github.com/named-data/ndnd/std/utils"

	"verifsim/facesim"
	"verifsim/kit"
)

type FaceCfg struct {
	Scope       string `json:"scope"` // local | nonlocal
	LocalFields bool   `json:"local_fields"`
}

type Config struct {
	Fib           string    `json:"fib"`
	Threads       int       `json:"threads"`
	AllowLocalhop bool      `json:"allow_localhop"`
	Faces         []FaceCfg `json:"faces"` // application faces; ids 2.. in order (1 is the internal face)
	// NoCache: the forwarder is configured not to serve from its content store. Only then can requests follow each
	// other within a dataset's freshness period (1 s) and still have to show the current tables (Op.GapMs); with the
	// cache on, the harness lets 5 s pass after every step so that no cached response can answer.
	NoCache bool `json:"no_cache,omitempty"`
}

type Params struct {
	Name        string  `json:"name,omitempty"`
	NoName      bool    `json:"no_name,omitempty"`
	FaceId      *uint64 `json:"face_id,omitempty"`
	Origin      *uint64 `json:"origin,omitempty"`
	Cost        *uint64 `json:"cost,omitempty"`
	Flags       *uint64 `json:"flags,omitempty"`
	Mask        *uint64 `json:"mask,omitempty"`
	Strategy    string  `json:"strategy,omitempty"`
	Capacity    *uint64 `json:"capacity,omitempty"`
	Mtu         *uint64 `json:"mtu,omitempty"`
	Persistency *uint64 `json:"persistency,omitempty"`
	Uri         string  `json:"uri,omitempty"`
	Expiration  *uint64 `json:"expiration,omitempty"` // rib/register: ExpirationPeriod in ms
}

// Query is a FaceQueryFilter: a face is listed iff it satisfies every condition given.
type Query struct {
	FaceId  *uint64 `json:"face_id,omitempty"`
	Scheme  *string `json:"scheme,omitempty"`
	Uri     *string `json:"uri,omitempty"`
	Local   *string `json:"local_uri,omitempty"`
	Scope   *uint64 `json:"scope,omitempty"`
	Pers    *uint64 `json:"pers,omitempty"`
	Link    *uint64 `json:"link,omitempty"`
	Shuffle int     `json:"shuffle,omitempty"`
}

func (p Params) String() string {
	b, _ := json.Marshal(p)
	return string(b)
}

type Op struct {
	Op      string `json:"op"`               // cmd | dataset | traffic
	Face    int    `json:"face"`             // index into Config.Faces of the requester
	Prefix  string `json:"prefix,omitempty"` // localhost | localhop | other
	Module  string `json:"module,omitempty"`
	Verb    string `json:"verb,omitempty"`
	P       Params `json:"p"`
	NoParam bool   `json:"no_params,omitempty"` // command sent without a ControlParameters component
	Garble  int    `json:"garble,omitempty"`    // >0: ControlParameters bytes corrupted (truncated to Garble-1 bytes / flipped)
	NextHop bool   `json:"nexthop,omitempty"`   // LpPacket carries NextHopFaceId = internal face
	Name    string `json:"name,omitempty"`      // traffic: Interest name
	Q       *Query `json:"q,omitempty"`         // dataset faces/query: the filter
	Shuffle int    `json:"shuffle,omitempty"`   // >0: the fields of the ControlParameters are sent in another order (the protocol fixes none)
	GapMs   int    `json:"gap_ms,omitempty"`    // NoCache only: simulated time that passes after this step (0 = 5000)
	// Mut != "": the encoded ControlParameters are corrupted in transit by one structure-aware mutation
	// (facesim.Mutate: length fields, truncation, bit flips, type confusion, insertion)
	Mut string `json:"mut,omitempty"`
	At  int    `json:"at,omitempty"`
	Val uint64 `json:"val,omitempty"`
}

type Engine struct{}

func (Engine) Name() string { return "mgmtsim" }

func u(v uint64) *uint64 { return &v }

var ribNames = []string{"/r", "/r/a", "/r/a/b", "/r/c", "/r2"}
var fibNames = []string{"/f", "/f/a", "/f/a/b", "/f2"}
var stratNames = []string{"/", "/r", "/r/a", "/f", "/s/x"}
var stratVals = []string{"/localhost/nfd/strategy/best-route", "/localhost/nfd/strategy/multicast/v=1", "/localhost/nfd/strategy/best-route/v=1",
	"/localhost/nfd/strategy", "/localhost/nfd/strategy/nosuch", "/localhost/nfd/strategy/multicast/v=9", "/example/strategy/best-route", "/localhost/nfd/strategy/best-route/x",
	"/localhost/nfd/strategy/multicast/v=1/extra", "/localhost/nfd/strategy/best-route/v=1/v=1",
	// version 1 as a two- and a four-byte number: the same version (a NonNegativeInteger has no shortest-form rule)
	"/localhost/nfd/strategy/multicast/54=%00%01", "/localhost/nfd/strategy/best-route/54=%00%00%00%01",
	// ... and a version that is no number at all
	"/localhost/nfd/strategy/multicast/54=%00%00%01"}

func (Engine) Generate(prop string, r *kit.Rand, tier string) *kit.Scenario[Config, Op] {
	sc := &kit.Scenario[Config, Op]{}
	c := &sc.Config
	c.Fib = kit.Pick(r, []string{"nametree", "hashtable"})
	c.Threads = kit.Pick(r, []int{1, 1, 2})
	c.AllowLocalhop = r.Chance(0.4)
	c.NoCache = r.Chance(0.3)
	nf := r.Range(2, 5)
	for i := 0; i < nf; i++ {
		f := FaceCfg{Scope: "local", LocalFields: r.Chance(0.4)}
		if i > 0 && r.Chance(0.4) {
			f.Scope = "nonlocal"
		}
		c.Faces = append(c.Faces, f)
	}
	faceID := func() *uint64 {
		switch r.Weighted([]int{5, 5, 1, 1}) {
		case 0:
			return nil
		case 1:
			return u(uint64(2 + r.Intn(nf)))
		case 2:
			return u(0)
		default:
			return u(uint64(kit.Pick(r, []int{77, 1000, 1})))
		}
	}
	n := r.Range(3, 30)
	if r.Chance(0.4) {
		n = r.Range(2, 10)
	}
	for i := 0; i < n; i++ {
		o := Op{Op: "cmd", Face: r.Intn(nf), Prefix: "localhost"}
		switch r.Weighted([]int{80, 14, 6}) {
		case 1:
			o.Prefix = "localhop"
		case 2:
			o.Prefix = "other"
		}
		o.NextHop = r.Chance(0.15)
		w := []int{30, 14, 10, 5, 14, 5, 16, 5}
		if prop == "C06" {
			w = []int{64, 4, 1, 0, 14, 1, 14, 2} // route registrations, unregistrations, faces going away, listings
		}
		switch r.Weighted(w) {
		case 0:
			o.Module = "rib"
			o.Verb = kit.Pick(r, []string{"register", "register", "unregister"})
			o.P.Name = kit.Pick(r, ribNames)
			o.P.FaceId = faceID()
			if r.Chance(0.4) {
				o.P.Origin = u(kit.Pick(r, []uint64{0, 65, 128, 255}))
			}
			if r.Chance(0.5) {
				o.P.Cost = u(uint64(r.Intn(5)))
			}
			if r.Chance(0.5) {
				o.P.Flags = u(uint64(r.Intn(4)))
			}
			if r.Chance(0.05) {
				o.P.Cost = u(kit.Pick(r, []uint64{1 << 31, 1 << 32, 1<<63 - 1, 1 << 63, 1<<64 - 1}))
			}
			if o.Verb == "register" && r.Chance(0.2) {
				o.P.Expiration = u(kit.Pick(r, []uint64{0, 1, 1000, 60000, 3600000, 1<<32 - 1, 1 << 32, 1 << 53, 9223372036854, 9223372036855, 1<<63 - 1, 1 << 63, 1<<64 - 1}))
			}
		case 1:
			o.Module = "fib"
			o.Verb = kit.Pick(r, []string{"add-nexthop", "add-nexthop", "remove-nexthop"})
			o.P.Name = kit.Pick(r, fibNames)
			o.P.FaceId = faceID()
			if r.Chance(0.5) {
				o.P.Cost = u(uint64(r.Intn(5)))
			}
		case 2:
			o.Module = "strategy-choice"
			o.Verb = kit.Pick(r, []string{"set", "set", "unset"})
			o.P.Name = kit.Pick(r, stratNames)
			if o.Verb == "set" || r.Chance(0.2) {
				o.P.Strategy = kit.Pick(r, stratVals)
			}
			if o.Verb == "set" && r.Chance(0.1) {
				o.P.Strategy = ""
			}
		case 3:
			o.Module = "cs"
			o.Verb = "config"
			if r.Chance(0.8) {
				o.P.Capacity = u(uint64(kit.Pick(r, []int{0, 1, 10, 1024, 65535})))
				if r.Chance(0.15) {
					o.P.Capacity = u(kit.Pick(r, []uint64{1<<31 - 1, 1 << 31, 1<<32 - 1, 1 << 32, 1<<63 - 1, 1 << 63, 1<<63 + 1, 1<<64 - 1}))
				}
			}
			if r.Chance(0.2) {
				o.P.Flags = u(3)
				if r.Chance(0.5) {
					o.P.Mask = u(3)
				}
			}
		case 4:
			o.Module = "faces"
			o.Verb = kit.Pick(r, []string{"update", "update", "update", "destroy", "create"})
			if prop == "C06" {
				o.Verb = "destroy"
			}
			switch o.Verb {
			case "update":
				o.P.FaceId = faceID()
				if r.Chance(0.6) {
					o.P.Mtu = u(uint64(kit.Pick(r, []int{0, 1, 10, 30, 128, 576, 1500, 8800, 9000, 100000})))
				}
				if r.Chance(0.4) {
					o.P.Flags = u(uint64(r.Intn(2)))
					if r.Chance(0.85) {
						o.P.Mask = u(1)
					}
				}
				if r.Chance(0.25) {
					o.P.Persistency = u(uint64(r.Intn(3)))
				}
			case "destroy":
				if r.Chance(0.9) {
					id := uint64(2 + r.Intn(nf))
					if int(id)-2 == o.Face || r.Chance(0.2) {
						id = 500 // never destroy the requester's own face: its response could not be delivered
					}
					o.P.FaceId = u(id)
				}
			case "create":
				o.P.Uri = kit.Pick(r, []string{"", "unix:///tmp/x.sock", "bogus", "ws://1.2.3.4:9696"})
			}
		case 5:
			// unknown module / verb
			o.Module = kit.Pick(r, []string{"rib", "fib", "nosuch", "faces", "cs", "status", "strategy-choice"})
			o.Verb = "frobnicate"
			o.P.Name = "/r"
		case 6:
			o.Op = "dataset"
			o.Module, o.Verb = "", ""
			mv := kit.Pick(r, []string{"fib/list", "rib/list", "strategy-choice/list", "faces/list", "cs/info", "status/general", "faces/query"})
			o.Module, o.Verb, _ = strings.Cut(mv, "/")
			if mv == "faces/query" {
				q := &Query{}
				sp := func(s string) *string { return &s }
				for q.FaceId == nil && q.Scheme == nil && q.Uri == nil && q.Local == nil && q.Scope == nil && q.Pers == nil && q.Link == nil {
					if r.Chance(0.4) {
						q.FaceId = u(uint64(kit.Pick(r, []int{1, 2, 3, 4, 5, 6, 77})))
					}
					if r.Chance(0.3) {
						q.Scheme = sp(kit.Pick(r, []string{"unix", "udp4", "internal", "tcp4"}))
					}
					if r.Chance(0.15) {
						k := r.Intn(nf)
						q.Uri = sp(kit.Pick(r, []string{fmt.Sprintf("unix:///run/app%d.sock", k), fmt.Sprintf("udp4://10.0.0.%d:6363", k+2), "internal://"}))
					}
					if r.Chance(0.1) {
						k := r.Intn(nf)
						q.Local = sp(kit.Pick(r, []string{fmt.Sprintf("unix:///run/app%d.sock", k), fmt.Sprintf("udp4://10.0.0.%d:6363", k+2), "internal://"}))
					}
					if r.Chance(0.3) {
						q.Scope = u(uint64(r.Intn(2)))
					}
					if r.Chance(0.2) {
						q.Pers = u(uint64(r.Intn(3)))
					}
					if r.Chance(0.15) {
						q.Link = u(uint64(r.Intn(3)))
					}
				}
				if r.Chance(0.25) {
					q.Shuffle = 1 + r.Intn(1<<16)
				}
				o.Q = q
			}
		case 7:
			o.Op = "traffic"
			o.Name = kit.Pick(r, append(append([]string{}, ribNames...), fibNames...)) + "/data"
		}
		if o.Op == "cmd" {
			if r.Chance(0.04) {
				o.NoParam = true
			}
			if r.Chance(0.06) {
				o.Garble = 1 + r.Intn(12)
			}
			if r.Chance(0.04) {
				o.P.NoName = true
			}
			if r.Chance(0.25) {
				o.Shuffle = 1 + r.Intn(1<<16)
			}
		}
		if c.NoCache && r.Chance(0.6) {
			o.GapMs = kit.Pick(r, []int{1, 100, 500, 999, 1001, 3000})
		}
		mutP := 0.04
		if prop == "C04" {
			mutP = 0.7
		}
		if o.Op == "cmd" && !o.NoParam && r.Chance(mutP) {
			o.Mut, o.At, o.Val = facesim.GenMut(r, 32, 200)
		}
		sc.Ops = append(sc.Ops, o)
		if o.Op == "cmd" && o.Module == "rib" && o.Verb == "register" && o.Mut == "" && o.Garble == 0 && !o.NoParam && prop != "C04" && r.Chance(0.25) {
			// the same route registered again (a refresh, or an update): every parameter given this time replaces
			// the stored one, those left out fall back to their defaults
			o2 := o
			o2.Shuffle = 0
			if r.Chance(0.5) {
				o2.P.Cost = u(uint64(r.Intn(5)))
			}
			if r.Chance(0.4) {
				o2.P.Flags = u(uint64(r.Intn(4)))
			}
			switch r.Intn(4) {
			case 0:
				o2.P.Expiration = nil
			case 1, 2:
				o2.P.Expiration = u(kit.Pick(r, []uint64{1, 1000, 5000, 60000, 3600000}))
			}
			if r.Chance(0.3) {
				o2.GapMs = o.GapMs
				sc.Ops = append(sc.Ops, Op{Op: "dataset", Face: o.Face, Prefix: "localhost", Module: "rib", Verb: "list"})
			}
			sc.Ops = append(sc.Ops, o2, Op{Op: "dataset", Face: o.Face, Prefix: "localhost", Module: "rib", Verb: "list"})
		}
	}
	if c.NoCache && prop != "C04" && r.Chance(0.7) {
		// "each status dataset lists exactly the current table contents": a dataset, a change of the table behind it
		// by whatever route (its own module's command, another module's, a face going away), the dataset again -
		// all within one freshness period of the first answer
		for k, nk := 0, r.Range(1, 3); k < nk; k++ {
			gap := func() int { return kit.Pick(r, []int{1, 20, 100, 300}) }
			f := uint64(2 + r.Intn(nf))
			cmd := func(module, verb string, p Params) Op {
				return Op{Op: "cmd", Face: 0, Prefix: "localhost", Module: module, Verb: verb, P: p, GapMs: gap()}
			}
			ds := func(mv string) Op {
				m, v, _ := strings.Cut(mv, "/")
				return Op{Op: "dataset", Face: r.Intn(nf), Prefix: "localhost", Module: m, Verb: v, GapMs: gap()}
			}
			var seq []Op
			switch r.Intn(5) {
			case 0:
				nm := kit.Pick(r, ribNames)
				seq = append(seq, cmd("rib", "register", Params{Name: nm, FaceId: u(f)}), ds("rib/list"))
				switch r.Intn(3) {
				case 0:
					seq = append(seq, cmd("faces", "destroy", Params{FaceId: u(f)}))
				case 1:
					seq = append(seq, cmd("rib", "unregister", Params{Name: nm, FaceId: u(f)}))
				case 2:
					seq = append(seq, cmd("rib", "register", Params{Name: kit.Pick(r, ribNames), FaceId: u(f), Cost: u(uint64(r.Intn(5)))}))
				}
				seq = append(seq, ds(kit.Pick(r, []string{"rib/list", "rib/list", "fib/list"})))
			case 1:
				nm := kit.Pick(r, fibNames)
				seq = append(seq, cmd("fib", "add-nexthop", Params{Name: nm, FaceId: u(f)}), ds("fib/list"))
				switch r.Intn(3) {
				case 0:
					seq = append(seq, cmd("fib", "remove-nexthop", Params{Name: nm, FaceId: u(f)}))
				case 1:
					seq = append(seq, cmd("fib", "add-nexthop", Params{Name: nm, FaceId: u(f), Cost: u(uint64(1 + r.Intn(5)))}))
				case 2:
					seq = append(seq, cmd("rib", "register", Params{Name: kit.Pick(r, ribNames), FaceId: u(f)}))
				}
				seq = append(seq, ds("fib/list"))
			case 2:
				nm := kit.Pick(r, stratNames)
				seq = append(seq, ds("strategy-choice/list"), cmd("strategy-choice", "set", Params{Name: nm, Strategy: "/localhost/nfd/strategy/multicast/v=1"}), ds("strategy-choice/list"))
				if r.Bool() && nm != "/" {
					seq = append(seq, cmd("strategy-choice", "unset", Params{Name: nm}), ds("strategy-choice/list"))
				}
			case 3:
				seq = append(seq, ds("faces/list"))
				if r.Bool() {
					seq = append(seq, cmd("faces", "destroy", Params{FaceId: u(f)}))
				} else {
					seq = append(seq, cmd("faces", "update", Params{FaceId: u(f), Mtu: u(uint64(kit.Pick(r, []int{1200, 1500, 8800})))}))
				}
				seq = append(seq, ds("faces/list"))
			case 4:
				seq = append(seq, ds("cs/info"), cmd("cs", "config", Params{Capacity: u(uint64(kit.Pick(r, []int{0, 7, 300})))}), ds("cs/info"))
			}
			for i := range seq {
				if seq[i].Op == "cmd" && seq[i].Module == "faces" && seq[i].Verb == "destroy" && seq[i].P.FaceId != nil && int(*seq[i].P.FaceId)-2 == seq[i].Face {
					seq[i].Face = 1 // never destroy the requester's own face
				}
			}
			sc.Ops = append(sc.Ops, seq...)
		}
	}
	return sc
}

func (Engine) Simplify(sc *kit.Scenario[Config, Op]) []*kit.Scenario[Config, Op] {
	var out []*kit.Scenario[Config, Op]
	mod := func(i int, f func(o *Op)) {
		ops := append([]Op(nil), sc.Ops...)
		f(&ops[i])
		out = append(out, sc.WithOps(ops))
	}
	modC := func(f func(c *Config)) {
		n := sc.WithOps(sc.Ops)
		c := sc.Config
		c.Faces = append([]FaceCfg(nil), c.Faces...)
		f(&c)
		n.Config = c
		out = append(out, n)
	}
	if sc.Config.Threads != 1 {
		modC(func(c *Config) { c.Threads = 1 })
	}
	if sc.Config.Fib != "nametree" {
		modC(func(c *Config) { c.Fib = "nametree" })
	}
	for i, f := range sc.Config.Faces {
		i := i
		if f.LocalFields {
			modC(func(c *Config) { c.Faces[i].LocalFields = false })
		}
	}
	for i, o := range sc.Ops {
		if o.NextHop {
			mod(i, func(o *Op) { o.NextHop = false })
		}
		if o.Garble != 0 {
			mod(i, func(o *Op) { o.Garble = 0 })
		}
		if o.Shuffle != 0 {
			mod(i, func(o *Op) { o.Shuffle = 0 })
		}
		if o.P.Cost != nil {
			mod(i, func(o *Op) { o.P.Cost = nil })
		}
		if o.P.Expiration != nil {
			mod(i, func(o *Op) { o.P.Expiration = nil })
		}
		if o.P.Origin != nil {
			mod(i, func(o *Op) { o.P.Origin = nil })
		}
		if o.P.Flags != nil && o.Module == "rib" {
			mod(i, func(o *Op) { o.P.Flags = nil })
		}
		if o.Face != 0 {
			mod(i, func(o *Op) { o.Face = 0 })
		}
	}
	return out
}

// ---------------------------------------------------------------- model

type route struct {
	face, origin, cost, flags uint64
	exp                       string // expiration period in ms, "-" if none
}

type faceM struct {
	exists      bool
	pers        face.Persistency
	scope       defn.Scope
	mtu         int
	localFields bool
}

type model struct {
	routes map[string][]route
	fib    map[string]map[uint64]uint64 // direct next hops (fib module + management's own)
	strat  map[string]string
	csCap  int
	faces  map[uint64]*faceM
}

func prefixesOf(n string) []string {
	out := []string{}
	for n != "/" && n != "" {
		out = append(out, n)
		i := strings.LastIndex(n, "/")
		if i <= 0 {
			break
		}
		n = n[:i]
	}
	return append(out, "/")
}

func (m *model) expectedFib() map[string]string {
	out := map[string]map[uint64]uint64{}
	for p, rs := range m.routes {
		if len(rs) == 0 {
			continue
		}
		all := append([]route(nil), rs...)
		capture := false
		for _, r := range rs {
			if r.flags&2 != 0 {
				capture = true
			}
		}
		if !capture {
			for _, q := range prefixesOf(p)[1:] {
				qs := m.routes[q]
				stop := false
				for _, r := range qs {
					if r.flags&1 != 0 {
						all = append(all, r)
					}
					if r.flags&2 != 0 {
						stop = true
					}
				}
				if stop {
					break
				}
			}
		}
		nh := map[uint64]uint64{}
		for _, r := range all {
			if c, ok := nh[r.face]; !ok || r.cost < c {
				nh[r.face] = r.cost
			}
		}
		out[p] = nh
	}
	for p, nh := range m.fib {
		if len(nh) == 0 {
			continue
		}
		if out[p] == nil {
			out[p] = map[uint64]uint64{}
		}
		for f, c := range nh {
			out[p][f] = c
		}
	}
	res := map[string]string{}
	for p, nh := range out {
		res[p] = nhStr(nh)
	}
	return res
}

func nhStr(nh map[uint64]uint64) string {
	xs := make([]string, 0, len(nh))
	for f, c := range nh {
		xs = append(xs, fmt.Sprintf("%d:%d", f, c))
	}
	sort.Strings(xs)
	return strings.Join(xs, ",")
}

func (m *model) ribStr() map[string]string {
	out := map[string]string{}
	for p, rs := range m.routes {
		if len(rs) == 0 {
			continue
		}
		xs := []string{}
		for _, r := range rs {
			xs = append(xs, fmt.Sprintf("%d/%d/%d/%d", r.face, r.origin, r.cost, r.flags)+expSuffix(r.exp))
		}
		sort.Strings(xs)
		out[p] = strings.Join(xs, ",")
	}
	return out
}

func expSuffix(e string) string {
	if e == "-" || e == "" {
		return ""
	}
	return "/exp=" + e
}

func mapStr(m map[string]string) string {
	ks := make([]string, 0, len(m))
	for k := range m {
		ks = append(ks, k)
	}
	sort.Strings(ks)
	var sb strings.Builder
	for _, k := range ks {
		sb.WriteString(k + "=[" + m[k] + "] ")
	}
	return sb.String()
}

// ---------------------------------------------------------------- run

func nstr(n enc.Name) string {
	if len(n) == 0 {
		return "/"
	}
	return n.String()
}

func mkName(s string) enc.Name {
	if s == "/" || s == "" {
		return enc.Name{}
	}
	n, err := enc.NameFromStr(s)
	if err != nil {
		panic("harness: bad name " + s)
	}
	return n
}

var configured bool

type runner struct {
	corrupted int
	ctx       *kit.Ctx
	sc        *kit.Scenario[Config, Op]
	res       *kit.Result
	m         *model
	ths       []*fw.Thread
	links     []*face.NDNLPLinkService // application faces
	trs       []*face.SimTransport
	outbox    [][][]byte // frames sent to each application face
	step      int
	seq       int
	mgmtFace  face.LinkService
}

func (e Engine) Run(t *testing.T, ctx *kit.Ctx, sc *kit.Scenario[Config, Op]) *kit.Result {
	r := &runner{ctx: ctx, sc: sc, res: &kit.Result{}}
	var pan any
	var site string
	synctest.Test(t, func(t *testing.T) {
		defer func() {
			if p := recover(); p != nil {
				pan, site = p, kit.PanicSite()
				r.shutdown()
			}
		}()
		r.run()
	})
	if pan != nil {
		if strings.HasPrefix(site, "harness:") {
			panic(pan)
		}
		msg := fmt.Sprint(pan)
		if len(msg) > 300 {
			msg = msg[:300]
		}
		r.res.Violation = &kit.Violation{Class: r.sc.Property + "/panic", Key: site, Step: r.step, Detail: msg}
	}
	return r.res
}

func (r *runner) setup() {
	c := &r.sc.Config
	cfg := core.DefaultConfig()
	cfg.Core.LogLevel = "FATAL"
	cfg.Fw.Threads = c.Threads
	cfg.Mgmt.AllowLocalhop = c.AllowLocalhop
	cfg.Tables.Rib.ReadvertiseNlsr = false
	if c.NoCache {
		cfg.Tables.ContentStore.Serve = false
	}
	cfg.Tables.Fib.Algorithm = c.Fib
	cfg.Faces.CongestionMarking = false
	core.LoadConfig(cfg, "")
	if !configured {
		core.InitializeLogger("")
		configured = true
	}
	core.ShouldQuit = false
	table.VerifResetGlobals()
	table.Configure()
	fw.Configure()
	face.Configure()
	fwmgmt.Configure()
	table.CreateFIBTable(c.Fib)
	for id := uint64(0); id < 1200; id++ { // every face id a scenario can have used (only the exported API, so that the table's representation can change)
		dispatch.RemoveFace(id)
	}
	face.VerifResetFaceTable()
	var disp []dispatch.FWThread
	r.ths = nil
	for i := 0; i < c.Threads; i++ {
		th := fw.NewThread(i)
		r.ths = append(r.ths, th)
		disp = append(disp, th)
	}
	fw.Threads = r.ths
	dispatch.InitializeFWThreads(disp)
	for _, th := range r.ths {
		go th.Run()
	}
	go fwmgmt.MakeMgmtThread().Run()
	synctest.Wait()
	m := &model{routes: map[string][]route{}, fib: map[string]map[uint64]uint64{}, strat: map[string]string{"/": "/localhost/nfd/strategy/best-route/v=1"},
		csCap: int(cfg.Tables.ContentStore.Capacity), faces: map[uint64]*faceM{}}
	r.m = m
	m.fib["/localhost/nfd"] = map[uint64]uint64{1: 0}
	if c.AllowLocalhop {
		m.fib["/localhop/nfd"] = map[uint64]uint64{1: 0}
	}
	m.faces[1] = &faceM{exists: true, scope: defn.Local, mtu: defn.MaxNDNPacketSize, localFields: true}
	if f1 := face.FaceTable.Get(1); f1 != nil {
		m.faces[1].pers = f1.Persistency()
		r.mgmtFace = f1
	}
	r.outbox = make([][][]byte, len(c.Faces))
	for i, fc := range c.Faces {
		i := i
		scope := defn.NonLocal
		uri := defn.MakeUDPFaceURI(4, fmt.Sprintf("10.0.0.%d", i+2), 6363)
		if fc.Scope == "local" {
			scope = defn.Local
			uri = defn.MakeUnixFaceURI(fmt.Sprintf("/run/app%d.sock", i))
		}
		tr := face.MakeSimTransport(uri, uri, scope, defn.PointToPoint, defn.MaxNDNPacketSize, func(f []byte) { r.outbox[i] = append(r.outbox[i], f) })
		opt := face.MakeNDNLPLinkServiceOptions()
		if fc.LocalFields {
			opt.IsConsumerControlledForwardingEnabled = true
			opt.IsIncomingFaceIndicationEnabled = true
			opt.IsLocalCachePolicyEnabled = true
		}
		ls := face.MakeNDNLPLinkService(tr, opt)
		ls.Run(nil)
		r.links = append(r.links, ls)
		r.trs = append(r.trs, tr)
		if ls.FaceID() != uint64(i+2) {
			panic(fmt.Sprintf("harness: face id %d, expected %d", ls.FaceID(), i+2))
		}
		m.faces[uint64(i+2)] = &faceM{exists: true, scope: scope, mtu: defn.MaxNDNPacketSize, localFields: fc.LocalFields, pers: ls.Persistency()}
	}
	synctest.Wait()
}

func (r *runner) shutdown() {
	core.ShouldQuit = true
	for _, th := range r.ths {
		th.TellToQuit()
	}
	for _, th := range r.ths {
		<-th.HasQuit
	}
	// Faces are torn down one at a time: concurrent teardown (each face's send
	// goroutine cleans the unlocked RIB) is C16's subject, not this engine's.
	fs := face.FaceTable.GetAll()
	if r.mgmtFace != nil && face.FaceTable.Get(1) == nil {
		// a (corrupted) faces/destroy took management's own face out of the table: the face itself is still
		// running (destroy does not close it) and is closed here like the others
		fs = append(fs, r.mgmtFace)
	}
	r.mgmtFace = nil
	sort.Slice(fs, func(i, j int) bool { return fs[i].FaceID() > fs[j].FaceID() })
	for _, f := range fs {
		f.Close()
		synctest.Wait()
	}
	for _, tr := range r.trs {
		tr.Close()
		synctest.Wait()
	}
	for i := 0; i < 3; i++ {
		time.Sleep(200 * time.Millisecond)
		synctest.Wait()
		for _, th := range r.ths {
			select {
			case <-th.VerifPitCS().UpdateTimer():
			default:
			}
		}
	}
	core.ShouldQuit = false
}

func (r *runner) fail(class, key, format string, a ...any) bool {
	// a C04 run corrupts command parameters in transit: only crash and allocation are judged
	if r.sc.Property == "C04" && !strings.HasPrefix(class, "C04/") {
		return true
	}
	if r.sc.Property == "C06" {
		// the flattening property decided through the management entry path: only what the tables hold (and what
		// the RIB and FIB datasets say they hold) is judged here; how commands are answered is C17's business
		switch {
		case class == "C17/tables-differ-from-model":
			class = "C06/tables-differ-from-flattening-of-accepted-commands"
		case class == "C17/dataset-differs-from-table" && (key == "fib/list" || key == "rib/list"):
			class = "C06/dataset-differs-from-table"
		default:
			return true
		}
	}
	if r.res.Violation == nil {
		r.res.Violation = &kit.Violation{Class: class, Key: key, Step: r.step, Detail: fmt.Sprintf(format, a...)}
	}
	return true
}

// snapshot of everything a command may change
func (r *runner) state() (fib, rib, strat map[string]string, csCap int, faces string) {
	fib, rib, strat = map[string]string{}, map[string]string{}, map[string]string{}
	for _, e := range table.FibStrategyTable.GetAllFIBEntries() {
		nh := map[uint64]uint64{}
		for _, h := range e.GetNextHops() {
			nh[h.Nexthop] = h.Cost
		}
		fib[nstr(e.Name())] = nhStr(nh)
	}
	for _, e := range table.Rib.GetAllEntries() {
		xs := []string{}
		for _, rt := range e.GetRoutes() {
			ex := "-"
			if rt.ExpirationPeriod != nil {
				ex = fmt.Sprint(uint64(*rt.ExpirationPeriod / time.Millisecond))
				if *rt.ExpirationPeriod < 0 || *rt.ExpirationPeriod%time.Millisecond != 0 {
					ex = fmt.Sprintf("(%d ns)", int64(*rt.ExpirationPeriod))
				}
			}
			xs = append(xs, fmt.Sprintf("%d/%d/%d/%d", rt.FaceID, rt.Origin, rt.Cost, rt.Flags)+expSuffix(ex))
		}
		sort.Strings(xs)
		rib[nstr(e.Name)] = strings.Join(xs, ",")
	}
	for _, e := range table.FibStrategyTable.GetAllForwardingStrategies() {
		strat[nstr(e.Name())] = nstr(e.GetStrategy())
	}
	csCap = table.CsCapacity()
	fs := []string{}
	for _, f := range face.FaceTable.GetAll() {
		lf := false
		if ls, ok := f.(*face.NDNLPLinkService); ok {
			lf = ls.Options().IsConsumerControlledForwardingEnabled
		}
		fs = append(fs, fmt.Sprintf("%d:mtu=%d:lf=%v:p=%d", f.FaceID(), f.MTU(), lf, f.Persistency()))
	}
	sort.Strings(fs)
	faces = strings.Join(fs, " ")
	return
}

func (r *runner) stateString() string {
	fib, rib, strat, cs, faces := r.state()
	return "fib{" + mapStr(fib) + "} rib{" + mapStr(rib) + "} strat{" + mapStr(strat) + "} cs=" + fmt.Sprint(cs) + " faces{" + faces + "}"
}

func (r *runner) modelString() string {
	m := r.m
	fs := []string{}
	for id, f := range m.faces {
		if f.exists {
			fs = append(fs, fmt.Sprintf("%d:mtu=%d:lf=%v:p=%d", id, f.mtu, f.localFields, f.pers))
		}
	}
	sort.Strings(fs)
	return "fib{" + mapStr(m.expectedFib()) + "} rib{" + mapStr(m.ribStr()) + "} strat{" + mapStr(m.strat) + "} cs=" + fmt.Sprint(m.csCap) + " faces{" + strings.Join(fs, " ") + "}"
}

// shuffleFields re-orders the fields inside a ControlParameters block (a valid encoding of the same parameters: the
// management protocol does not prescribe an order).
func shuffleFields(b []byte, seed int) []byte {
	rd := func(p []byte) (uint64, int) {
		switch {
		case len(p) >= 1 && p[0] <= 0xfc:
			return uint64(p[0]), 1
		case len(p) >= 3 && p[0] == 0xfd:
			return uint64(p[1])<<8 | uint64(p[2]), 3
		case len(p) >= 5 && p[0] == 0xfe:
			return uint64(p[1])<<24 | uint64(p[2])<<16 | uint64(p[3])<<8 | uint64(p[4]), 5
		}
		return 0, 0
	}
	_, tl := rd(b)
	if tl == 0 {
		return b
	}
	l, ll := rd(b[tl:])
	if ll == 0 || int(l) != len(b)-tl-ll {
		return b
	}
	body := b[tl+ll:]
	var fields [][]byte
	for off := 0; off < len(body); {
		_, ftl := rd(body[off:])
		if ftl == 0 {
			return b
		}
		fl, fll := rd(body[off+ftl:])
		if fll == 0 || off+ftl+fll+int(fl) > len(body) {
			return b
		}
		fields = append(fields, body[off:off+ftl+fll+int(fl)])
		off += ftl + fll + int(fl)
	}
	rr := kit.NewRand(uint64(seed))
	for i := len(fields) - 1; i > 0; i-- {
		j := rr.Intn(i + 1)
		fields[i], fields[j] = fields[j], fields[i]
	}
	out := append([]byte(nil), b[:tl+ll]...)
	for _, f := range fields {
		out = append(out, f...)
	}
	return out
}

func (r *runner) encodeParams(o *Op) []byte {
	a := &mgmt.ControlArgs{FaceId: o.P.FaceId, Origin: o.P.Origin, Cost: o.P.Cost, Flags: o.P.Flags, Mask: o.P.Mask,
		Capacity: o.P.Capacity, Mtu: o.P.Mtu, FacePersistency: o.P.Persistency, ExpirationPeriod: o.P.Expiration}
	if o.P.Name != "" && !o.P.NoName {
		a.Name = mkName(o.P.Name)
	}
	if o.P.Strategy != "" {
		a.Strategy = &mgmt.Strategy{Name: mkName(o.P.Strategy)}
	}
	if o.P.Uri != "" {
		a.Uri = utils.IdPtr(o.P.Uri)
	}
	b := (&mgmt.ControlParameters{Val: a}).Encode().Join()
	if o.Shuffle > 0 {
		b = shuffleFields(b, o.Shuffle)
	}
	if o.Mut != "" {
		r.ctx.Fault("corrupt-control-parameters-" + o.Mut)
		return facesim.Mutate(b, o.Mut, o.At, o.Val)
	}
	if o.Garble > 0 {
		r.ctx.Fault("corrupt-control-parameters")
		if o.Garble-1 < len(b) && o.Garble%2 == 0 {
			b = b[:o.Garble-1]
		} else if len(b) > 2 {
			b = append([]byte(nil), b...)
			b[1] = byte(len(b) + o.Garble) // length field disagrees
			b[len(b)-1] ^= 0x55
		}
	}
	return b
}

type response struct {
	got    bool
	status uint64
	text   string
	params *mgmt.ControlArgs
	data   *spec.Data
	n      int
}

// inject sends an Interest through the requester's link service and returns the Data that came back on that face.
func (r *runner) inject(fi int, name enc.Name, canBePrefix bool, nextHop bool) response {
	r.seq++
	cfg := &ndn.InterestConfig{MustBeFresh: true, CanBePrefix: canBePrefix, Nonce: utils.IdPtr(uint64(0x77000000 + r.seq)),
		Lifetime: utils.IdPtr(500 * time.Millisecond)}
	ei, err := spec.Spec{}.MakeInterest(name, cfg, nil, nil)
	if err != nil {
		panic("harness: MakeInterest: " + err.Error())
	}
	lp := &spec.LpPacket{Fragment: ei.Wire, PitToken: []byte{byte(r.seq >> 8), byte(r.seq), 0xab}}
	if nextHop {
		lp.NextHopFaceId = utils.IdPtr(uint64(1))
	}
	p := &spec.Packet{LpPacket: lp}
	e := spec.PacketEncoder{}
	e.Init(p)
	frame := e.Encode(p).Join()
	r.outbox[fi] = nil
	r.links[fi].VerifHandleFrame(frame)
	synctest.Wait()
	var resp response
	// the application side reassembles fragmented frames like a peer link service would
	type partial struct {
		frags [][]byte
		have  int
	}
	parts := map[uint64]*partial{}
	var packets [][]byte
	for _, f := range r.outbox[fi] {
		pk, _, err := spec.ReadPacket(enc.NewBufferReader(f))
		if err != nil || pk.LpPacket == nil {
			continue
		}
		lp := pk.LpPacket
		if lp.FragCount != nil && *lp.FragCount > 1 && lp.Sequence != nil && lp.FragIndex != nil && *lp.FragIndex < *lp.FragCount {
			base := *lp.Sequence - *lp.FragIndex
			pt := parts[base]
			if pt == nil {
				pt = &partial{frags: make([][]byte, *lp.FragCount)}
				parts[base] = pt
			}
			if pt.frags[*lp.FragIndex] == nil {
				pt.frags[*lp.FragIndex] = lp.Fragment.Join()
				pt.have++
			}
			if pt.have == len(pt.frags) {
				var whole []byte
				for _, fr := range pt.frags {
					whole = append(whole, fr...)
				}
				packets = append(packets, whole)
			}
			continue
		}
		packets = append(packets, lp.Fragment.Join())
	}
	for _, raw := range packets {
		inner, _, err := spec.ReadPacket(enc.NewBufferReader(raw))
		if err != nil || inner.Data == nil {
			continue
		}
		if !name.IsPrefix(inner.Data.NameV) {
			continue
		}
		resp.n++
		resp.got = true
		resp.data = inner.Data
		cr, err := mgmt.ParseControlResponse(enc.NewWireReader(inner.Data.Content()), true)
		if err == nil && cr.Val != nil {
			resp.status, resp.text, resp.params = cr.Val.StatusCode, cr.Val.StatusText, cr.Val.Params
		}
	}
	return resp
}

func (r *runner) run() {
	r.setup()
	dg := kit.NewDigest()
	accepted, refused := 0, 0
	for i := range r.sc.Ops {
		o := &r.sc.Ops[i]
		r.step = i
		switch o.Op {
		case "cmd":
			a, f := r.doCmd(o)
			accepted += a
			refused += f
		case "dataset":
			r.doDataset(o)
		case "traffic":
			// a packet is pushed through the tables: nothing may crash, the daemon must stay responsive
			r.inject(o.Face%len(r.links), mkName(o.Name), false, false)
		}
		r.res.Steps++
		if r.res.Violation != nil {
			break
		}
		// invariant: tables equal the model after every step
		if got, want := r.stateString(), r.modelString(); got != want {
			r.fail("C17/tables-differ-from-model", o.Module+"/"+o.Verb, "after %s %s/%s from face %d:\n got  %s\n want %s", o.Op, o.Module, o.Verb, o.Face+2, got, want)
			break
		}
		// let every PIT entry expire and every cached response go stale before the next command
		gap := 5 * time.Second
		if c := r.sc.Config; c.NoCache && o.GapMs > 0 {
			gap = time.Duration(o.GapMs) * time.Millisecond // nothing is served from a cache: a short gap is fine
		}
		time.Sleep(gap)
		synctest.Wait()
		sd := kit.HashString(r.stateString())
		r.ctx.State(sd)
		dg.U(sd)
	}
	r.res.NonTrivial = accepted >= 1 && refused >= 1
	if r.sc.Property == "C04" {
		r.res.NonTrivial = r.corrupted > 0
	}
	r.res.Digest = dg.Sum()
	r.res.SimNanos = int64(time.Duration(r.res.Steps) * 5 * time.Second)
	r.shutdown()
}

func isStrategyOK(s string) (string, bool) {
	switch s {
	case "/localhost/nfd/strategy/best-route", "/localhost/nfd/strategy/best-route/v=1", "/localhost/nfd/strategy/best-route/54=%00%00%00%01":
		return "/localhost/nfd/strategy/best-route/v=1", true
	case "/localhost/nfd/strategy/multicast", "/localhost/nfd/strategy/multicast/v=1", "/localhost/nfd/strategy/multicast/54=%00%01":
		return "/localhost/nfd/strategy/multicast/v=1", true
	}
	return "", false
}

// doCmd issues a control command and checks response and effects. Returns (accepted, refused) counts.
func (r *runner) doCmd(o *Op) (int, int) {
	m := r.m
	fi := o.Face % len(r.links)
	reqID := uint64(fi + 2)
	req := m.faces[reqID]
	var name enc.Name
	switch o.Prefix {
	case "localhost":
		name = mkName("/localhost/nfd")
	case "localhop":
		name = mkName("/localhop/nfd")
	default:
		name = mkName("/localhost/other")
	}
	name = append(name, enc.NewStringComponent(enc.TypeGenericNameComponent, o.Module), enc.NewStringComponent(enc.TypeGenericNameComponent, o.Verb))
	if !o.NoParam {
		pb := r.encodeParams(o)
		if o.Mut != "" && o.Module == "faces" && o.Verb == "destroy" && r.sc.Property != "C04" {
			// a corruption can produce a perfectly valid command for another face; destroying management's own face
			// (id 1) or the requester's own face are the commands whose response cannot come back, so they are not
			// sent (C04 runs do send them; uncorrupted commands never name the requester's face either)
			if p, err := mgmt.ParseControlParameters(enc.NewBufferReader(pb), true); err == nil && p.Val != nil && p.Val.FaceId != nil && (*p.Val.FaceId == 1 || *p.Val.FaceId == reqID) {
				r.ctx.Probe("corruption-would-destroy-management-face")
				return 0, 0
			}
		}
		name = append(name, enc.NewBytesComponent(enc.TypeGenericNameComponent, pb))
		r.seq++
		name = append(name, enc.NewStringComponent(enc.TypeGenericNameComponent, fmt.Sprintf("n%d", r.seq)))
	}
	before := r.stateString()
	if !req.exists {
		return 0, 0 // the requester's face was destroyed earlier: nothing can be sent from it
	}
	var ms0, ms1 runtime.MemStats
	if o.Mut != "" && r.sc.Property == "C04" {
		runtime.ReadMemStats(&ms0)
	}
	resp := r.inject(fi, name, false, o.NextHop)
	if o.Mut != "" && r.sc.Property == "C04" {
		runtime.ReadMemStats(&ms1)
		r.corrupted++
		if grown := ms1.TotalAlloc - ms0.TotalAlloc; grown > 4<<20+64*uint64(len(name.Bytes())) {
			r.fail("C04/allocation-out-of-proportion", "mgmt/"+o.Module+"/"+o.Verb, "a command with corrupted parameters (%d bytes) made the forwarder allocate %d bytes", len(name.Bytes()), grown)
		}
	}
	after := r.stateString()
	key := o.Module + "/" + o.Verb

	// ---- is the command authorised at all?
	authorised := false
	switch o.Prefix {
	case "localhost":
		authorised = req.scope == defn.Local
	case "localhop":
		authorised = o.Module == "rib" && r.sc.Config.AllowLocalhop
	}
	if !authorised {
		r.ctx.Probe("unauthorised-command")
		if after != before {
			r.fail("C17/unauthorised-command-changed-state", fmt.Sprintf("%s/%s/scope=%v/localhop=%v", o.Prefix, o.Module, req.scope == defn.Local, r.sc.Config.AllowLocalhop),
				"command %s under prefix %q from face %d (local=%v, allow_localhop=%v, nexthop=%v) changed forwarder state:\n before %s\n after  %s", key, o.Prefix, reqID, req.scope == defn.Local, r.sc.Config.AllowLocalhop, o.NextHop, before, after)
		}
		if resp.got && resp.status == 200 {
			r.fail("C17/unauthorised-command-accepted", o.Prefix+"/"+o.Module, "command %s under %q from face %d answered 200", key, o.Prefix, reqID)
		}
		return 0, 1
	}

	// ---- expected outcome for an authorised command
	want := "ok" // ok | refuse | any-non-200
	var effect func()
	targetFace := func() (uint64, bool) { // FaceId default: the requesting face
		id := reqID
		if o.P.FaceId != nil && *o.P.FaceId != 0 {
			id = *o.P.FaceId
		}
		f := m.faces[id]
		return id, f != nil && f.exists
	}
	hasName := o.P.Name != "" && !o.P.NoName
	switch {
	case o.Verb == "frobnicate" || o.Module == "nosuch":
		want = "any-non-200"
	case o.NoParam || o.Garble > 0 || o.Mut != "":
		want = "refuse"
		if o.Garble > 0 || o.Mut != "" {
			want = "any-non-200-or-ok-if-decodable"
		}
	case o.Module == "rib" && o.Verb == "register":
		id, ok := targetFace()
		if !hasName || !ok {
			want = "refuse"
			break
		}
		rt := route{face: id, origin: 0, cost: 0, flags: 1, exp: "-"}
		if o.P.Expiration != nil {
			rt.exp = fmt.Sprint(*o.P.Expiration)
			if *o.P.Expiration > math.MaxInt64/1000000 {
				// more milliseconds than any clock arithmetic in nanoseconds can hold: refused, or stored exactly
				want = "ok-or-refuse"
			}
		}
		if o.P.Origin != nil {
			rt.origin = *o.P.Origin
		}
		if o.P.Cost != nil {
			rt.cost = *o.P.Cost
		}
		if o.P.Flags != nil {
			rt.flags = *o.P.Flags
		}
		effect = func() {
			rs := m.routes[o.P.Name]
			for j := range rs {
				if rs[j].face == rt.face && rs[j].origin == rt.origin {
					rs[j] = rt
					return
				}
			}
			m.routes[o.P.Name] = append(rs, rt)
		}
	case o.Module == "rib" && o.Verb == "unregister":
		if !hasName {
			want = "refuse"
			break
		}
		id, _ := targetFace()
		origin := uint64(0)
		if o.P.Origin != nil {
			origin = *o.P.Origin
		}
		effect = func() {
			rs := m.routes[o.P.Name]
			for j := range rs {
				if rs[j].face == id && rs[j].origin == origin {
					m.routes[o.P.Name] = append(append([]route(nil), rs[:j]...), rs[j+1:]...)
					return
				}
			}
		}
	case o.Module == "fib" && o.Verb == "add-nexthop":
		id, ok := targetFace()
		if !hasName || !ok {
			want = "refuse"
			break
		}
		cost := uint64(0)
		if o.P.Cost != nil {
			cost = *o.P.Cost
		}
		effect = func() {
			if m.fib[o.P.Name] == nil {
				m.fib[o.P.Name] = map[uint64]uint64{}
			}
			m.fib[o.P.Name][id] = cost
		}
	case o.Module == "fib" && o.Verb == "remove-nexthop":
		if !hasName {
			want = "refuse"
			break
		}
		id, _ := targetFace()
		effect = func() { delete(m.fib[o.P.Name], id) }
	case o.Module == "strategy-choice" && o.Verb == "set":
		full, ok := isStrategyOK(o.P.Strategy)
		if !hasName || !ok {
			want = "refuse"
			break
		}
		effect = func() { m.strat[o.P.Name] = full }
	case o.Module == "strategy-choice" && o.Verb == "unset":
		if !hasName || o.P.Name == "/" {
			want = "refuse" // the root strategy can be replaced but not unset
			break
		}
		effect = func() { delete(m.strat, o.P.Name) }
	case o.Module == "cs" && o.Verb == "config":
		if (o.P.Flags == nil) != (o.P.Mask == nil) {
			want = "refuse"
			break
		}
		if o.P.Capacity != nil && *o.P.Capacity > math.MaxInt64 {
			// no table can hold that many entries: "exactly the effect its parameters describe" is impossible, the
			// command is out of range
			want = "refuse"
			break
		}
		effect = func() {
			if o.P.Capacity != nil {
				m.csCap = int(*o.P.Capacity)
			}
		}
	case o.Module == "faces" && o.Verb == "update":
		id, ok := targetFace()
		if !ok || id == 1 {
			want = "refuse"
			break
		}
		if (o.P.Flags == nil) != (o.P.Mask == nil) {
			want = "refuse"
			break
		}
		if o.P.Mtu != nil && *o.P.Mtu < 64 {
			want = "refuse" // cannot carry a packet (the link header alone needs tens of bytes)
			break
		}
		if o.P.Persistency != nil {
			want = "any" // per-transport persistency rules are not modelled
			break
		}
		if o.P.Mtu != nil && *o.P.Mtu < 128 {
			want = "any"
			break
		}
		effect = func() {
			f := m.faces[id]
			if o.P.Mtu != nil {
				f.mtu = int(min(*o.P.Mtu, uint64(defn.MaxNDNPacketSize)))
			}
			if o.P.Flags != nil && *o.P.Mask&1 != 0 {
				f.localFields = *o.P.Flags&1 != 0
			}
		}
	case o.Module == "faces" && o.Verb == "destroy":
		if o.P.FaceId == nil {
			want = "refuse"
			break
		}
		id := *o.P.FaceId
		effect = func() {
			if f := m.faces[id]; f != nil && f.exists && id != 1 {
				f.exists = false
				for p, rs := range m.routes {
					var keep []route
					for _, rt := range rs {
						if rt.face != id {
							keep = append(keep, rt)
						}
					}
					m.routes[p] = keep
				}
			}
		}
	case o.Module == "faces" && o.Verb == "create":
		want = "refuse" // only URIs that cannot be created are generated
	default:
		want = "any"
	}

	if resp.n > 1 {
		r.fail("C17/command-answered-twice", key, "%d responses to one command", resp.n)
	}
	is4xx := resp.got && resp.status >= 400 && resp.status <= 499
	switch want {
	case "ok":
		if !resp.got {
			r.fail("C17/command-not-answered", key, "accepted-form command %s %+v from face %d got no response", key, o.P, reqID)
		} else if resp.status != 200 {
			r.fail("C17/valid-command-refused", key, "command %s %+v from face %d answered %d %s", key, o.P, reqID, resp.status, resp.text)
		}
		if effect != nil {
			effect()
		}
		r.ctx.Probe("accepted/" + key)
		return 1, 0
	case "refuse":
		r.ctx.Probe("refused/" + key)
		if !resp.got {
			r.fail("C17/command-not-answered", key+"/bad-params", "malformed command %s %+v (noparam=%v) got no response", key, o.P, o.NoParam)
		} else if !is4xx {
			r.fail("C17/bad-command-not-refused", c17RefuseKey(o), "command %s %+v (noparam=%v) must be refused with a 4xx status, got %d %s", key, o.P, o.NoParam, resp.status, resp.text)
		}
		if after != before {
			r.fail("C17/refused-command-changed-state", key, "refused command %s changed state:\n before %s\n after  %s", key, before, after)
		}
		return 0, 1
	case "ok-or-refuse":
		if !resp.got {
			r.fail("C17/command-not-answered", key, "command %s %+v from face %d got no response", key, o.P, reqID)
		} else if resp.status == 200 {
			if effect != nil {
				effect() // the invariant after the step compares the tables with exactly this effect
			}
			return 1, 0
		} else if !is4xx {
			r.fail("C17/bad-command-not-refused", key+"/out-of-range", "command %s %+v answered %d %s", key, o.P, resp.status, resp.text)
		}
		if after != before {
			r.fail("C17/refused-command-changed-state", key, "refused command %s changed state:\n before %s\n after  %s", key, before, after)
		}
		return 0, 1
	case "any-non-200":
		if resp.got && resp.status == 200 {
			r.fail("C17/bad-command-not-refused", key+"/unknown-verb", "unknown %s answered 200", key)
		}
		if after != before {
			r.fail("C17/refused-command-changed-state", key, "unknown command %s changed state", key)
		}
		return 0, 1
	case "any-non-200-or-ok-if-decodable":
		// corrupted parameters: refused, or (if they still decode) handled as whatever they decode to; never a crash.
		// State may change only together with a 200.
		if !(resp.got && resp.status == 200) && after != before {
			r.fail("C17/refused-command-changed-state", key+"/garbled", "command with corrupted parameters changed state without being accepted")
		}
		if after != before {
			r.resync()
		}
		return 0, 1
	default: // any
		// whatever the outcome: a command answered with a 4xx status changes nothing
		if resp.got && resp.status >= 400 && resp.status < 500 && after != before {
			r.fail("C17/refused-command-changed-state", key, "command %s answered %d changed state:\n before %s\n after  %s", key, resp.status, before, after)
		}
		if after != before {
			r.resync()
		}
		return 0, 0
	}
}

func c17RefuseKey(o *Op) string {
	k := o.Module + "/" + o.Verb
	switch {
	case o.Module == "faces" && o.Verb == "update" && o.P.Mtu != nil && *o.P.Mtu < 64:
		return k + "/mtu-too-small"
	case o.Module == "faces" && o.Verb == "update" && o.P.FaceId != nil && *o.P.FaceId == 1:
		return k + "/internal-face"
	case o.Module == "strategy-choice" && o.Verb == "unset" && o.P.Name == "/":
		return k + "/root"
	case o.Module == "strategy-choice":
		return k + "/strategy=" + o.P.Strategy
	case o.NoParam:
		return k + "/no-params"
	case o.P.NoName || o.P.Name == "":
		return k + "/no-name"
	case o.P.FaceId != nil:
		return k + "/face"
	}
	return k
}

// resync adopts the implementation's tables where the model deliberately does
// not predict the outcome (corrupted parameters that still decode, unmodelled
// persistency rules). Used narrowly: only for outcome class "any".
func (r *runner) resync() {
	m := r.m
	m.routes = map[string][]route{}
	for _, e := range table.Rib.GetAllEntries() {
		for _, rt := range e.GetRoutes() {
			ex := "-"
			if rt.ExpirationPeriod != nil {
				ex = fmt.Sprint(uint64(*rt.ExpirationPeriod / time.Millisecond))
			}
			m.routes[nstr(e.Name)] = append(m.routes[nstr(e.Name)], route{rt.FaceID, rt.Origin, rt.Cost, rt.Flags, ex})
		}
	}
	exp := m.expectedFib()
	m.fib = map[string]map[uint64]uint64{}
	for _, e := range table.FibStrategyTable.GetAllFIBEntries() {
		n := nstr(e.Name())
		if _, fromRib := exp[n]; fromRib && len(m.routes[n]) > 0 {
			continue
		}
		m.fib[n] = map[uint64]uint64{}
		for _, h := range e.GetNextHops() {
			m.fib[n][h.Nexthop] = h.Cost
		}
	}
	m.strat = map[string]string{}
	for _, e := range table.FibStrategyTable.GetAllForwardingStrategies() {
		m.strat[nstr(e.Name())] = nstr(e.GetStrategy())
	}
	m.csCap = table.CsCapacity()
	for id, f := range m.faces {
		ls := face.FaceTable.Get(id)
		f.exists = ls != nil
		if ls != nil {
			f.pers = ls.Persistency()
			f.mtu = ls.MTU()
			if l, ok := ls.(*face.NDNLPLinkService); ok {
				f.localFields = l.Options().IsConsumerControlledForwardingEnabled
			}
		}
	}
	r.ctx.Probe("model-resynced")
}

// threadCounters: the traffic counters summed over the forwarding threads.
func (r *runner) threadCounters() [6]uint64 {
	var c [6]uint64
	for _, th := range r.ths {
		c[0] += th.NInInterests
		c[1] += th.NInData
		c[2] += th.NOutInterests
		c[3] += th.NOutData
		c[4] += th.NSatisfiedInterests
		c[5] += th.NUnsatisfiedInterests
	}
	return c
}

// faceCounters: the traffic counters of every face in the face table.
func faceCounters() map[uint64][6]uint64 {
	out := map[uint64][6]uint64{}
	for _, f := range face.FaceTable.GetAll() {
		out[f.FaceID()] = [6]uint64{f.NInInterests(), f.NInData(), f.NInBytes(), f.NOutInterests(), f.NOutData(), f.NOutBytes()}
	}
	return out
}

func (r *runner) doDataset(o *Op) {
	m := r.m
	fi := o.Face % len(r.links)
	req := m.faces[uint64(fi+2)]
	if !req.exists {
		return
	}
	name := mkName("/localhost/nfd/" + o.Module + "/" + o.Verb)
	key := o.Module + "/" + o.Verb
	if key == "faces/query" {
		if o.Q == nil {
			return
		}
		fb := (&mgmt.FaceQueryFilter{Val: &mgmt.FaceQueryFilterValue{FaceId: o.Q.FaceId, UriScheme: o.Q.Scheme, Uri: o.Q.Uri, LocalUri: o.Q.Local,
			FaceScope: o.Q.Scope, FacePersistency: o.Q.Pers, LinkType: o.Q.Link}}).Encode().Join()
		if o.Q.Shuffle > 0 {
			fb = shuffleFields(fb, o.Q.Shuffle)
		}
		name = append(name, enc.NewBytesComponent(enc.TypeGenericNameComponent, fb))
	}
	counters0 := faceCounters()
	threads0 := r.threadCounters()
	resp := r.inject(fi, name, true, false)
	if req.scope != defn.Local {
		if resp.got {
			r.fail("C17/dataset-served-to-nonlocal-face", key, "dataset %s served to non-local face %d", key, fi+2)
		}
		return
	}
	if !resp.got {
		r.fail("C17/dataset-not-served", key, "dataset request %s from local face %d got no Data", key, fi+2)
		return
	}
	r.ctx.Probe("dataset/" + key)
	content := resp.data.Content()
	fib, rib, strat, csCap, _ := r.state()
	switch key {
	case "fib/list":
		ds, err := mgmt.ParseFibStatus(enc.NewWireReader(content), true)
		if err != nil {
			r.fail("C17/dataset-undecodable", key, "%v", err)
			return
		}
		got := map[string]string{}
		for _, e := range ds.Entries {
			nh := map[uint64]uint64{}
			for _, h := range e.NextHopRecords {
				nh[h.FaceId] = h.Cost
			}
			got[nstr(e.Name)] = nhStr(nh)
		}
		if mapStr(got) != mapStr(fib) {
			r.fail("C17/dataset-differs-from-table", key, "fib/list %s, table %s", mapStr(got), mapStr(fib))
		}
	case "rib/list":
		ds, err := mgmt.ParseRibStatus(enc.NewWireReader(content), true)
		if err != nil {
			r.fail("C17/dataset-undecodable", key, "%v", err)
			return
		}
		got := map[string]string{}
		for _, e := range ds.Entries {
			xs := []string{}
			for _, rt := range e.Routes {
				ex := "-"
				if rt.ExpirationPeriod != nil {
					ex = fmt.Sprint(*rt.ExpirationPeriod)
				}
				xs = append(xs, fmt.Sprintf("%d/%d/%d/%d", rt.FaceId, rt.Origin, rt.Cost, rt.Flags)+expSuffix(ex))
			}
			sort.Strings(xs)
			got[nstr(e.Name)] = strings.Join(xs, ",")
		}
		if mapStr(got) != mapStr(rib) {
			r.fail("C17/dataset-differs-from-table", key, "rib/list %s, table %s", mapStr(got), mapStr(rib))
		}
	case "strategy-choice/list":
		ds, err := mgmt.ParseStrategyChoiceMsg(enc.NewWireReader(content), true)
		if err != nil {
			r.fail("C17/dataset-undecodable", key, "%v", err)
			return
		}
		got := map[string]string{}
		for _, e := range ds.StrategyChoices {
			if e.Strategy != nil {
				got[nstr(e.Name)] = nstr(e.Strategy.Name)
			}
		}
		if mapStr(got) != mapStr(strat) {
			r.fail("C17/dataset-differs-from-table", key, "strategy-choice/list %s, table %s", mapStr(got), mapStr(strat))
		}
	case "faces/list":
		ds, err := mgmt.ParseFaceStatusMsg(enc.NewWireReader(content), true)
		if err != nil {
			r.fail("C17/dataset-undecodable", key, "%v", err)
			return
		}
		got := []string{}
		for _, f := range ds.Vals {
			mtu := uint64(0)
			if f.Mtu != nil {
				mtu = *f.Mtu
			}
			got = append(got, fmt.Sprintf("%d:mtu=%d:scope=%d:lf=%v:pers=%d:link=%d:uri=%s", f.FaceId, mtu, f.FaceScope, f.Flags&1 != 0,
				f.FacePersistency, f.LinkType, f.Uri))
			// counters: the exchange that carries the dataset moves them, so each must lie between its value before
			// the request and its value now
			now := faceCounters()[f.FaceId]
			was, known := counters0[f.FaceId]
			vals := [6]uint64{f.NInInterests, f.NInData, f.NInBytes, f.NOutInterests, f.NOutData, f.NOutBytes}
			names := [6]string{"NInInterests", "NInData", "NInBytes", "NOutInterests", "NOutData", "NOutBytes"}
			for i := range vals {
				if known && (vals[i] < was[i] || vals[i] > now[i]) {
					r.fail("C17/dataset-differs-from-table", key+"/counters", "faces/list reports %s=%d for face %d; the face counted %d before the request and %d after the answer", names[i], vals[i], f.FaceId, was[i], now[i])
				}
			}
		}
		sort.Strings(got)
		want := []string{}
		for _, f := range face.FaceTable.GetAll() {
			lf := false
			if ls, ok := f.(*face.NDNLPLinkService); ok {
				lf = ls.Options().IsConsumerControlledForwardingEnabled
			}
			want = append(want, fmt.Sprintf("%d:mtu=%d:scope=%d:lf=%v:pers=%d:link=%d:uri=%s", f.FaceID(), f.MTU(), uint64(f.Scope()), lf,
				uint64(f.Persistency()), uint64(f.LinkType()), f.RemoteURI().String()))
		}
		sort.Strings(want)
		if strings.Join(got, " ") != strings.Join(want, " ") {
			r.fail("C17/dataset-differs-from-table", key, "faces/list %v, face table %v", got, want)
		}
	case "faces/query":
		ds, err := mgmt.ParseFaceStatusMsg(enc.NewWireReader(content), true)
		if err != nil {
			r.fail("C17/dataset-undecodable", key, "%v", err)
			return
		}
		got := []string{}
		for _, f := range ds.Vals {
			got = append(got, fmt.Sprint(f.FaceId))
		}
		sort.Strings(got)
		want := []string{}
		q := o.Q
		for _, f := range face.FaceTable.GetAll() {
			ok := (q.FaceId == nil || *q.FaceId == f.FaceID()) &&
				(q.Scheme == nil || *q.Scheme == f.LocalURI().Scheme() || *q.Scheme == f.RemoteURI().Scheme()) &&
				(q.Uri == nil || *q.Uri == f.RemoteURI().String()) &&
				(q.Local == nil || *q.Local == f.LocalURI().String()) &&
				(q.Scope == nil || *q.Scope == uint64(f.Scope())) &&
				(q.Pers == nil || *q.Pers == uint64(f.Persistency())) &&
				(q.Link == nil || *q.Link == uint64(f.LinkType()))
			if ok {
				want = append(want, fmt.Sprint(f.FaceID()))
			}
		}
		sort.Strings(want)
		if len(want) > 0 && len(want) < len(face.FaceTable.GetAll()) {
			r.ctx.Probe("faces-query-selects-a-proper-subset")
		}
		if strings.Join(got, " ") != strings.Join(want, " ") {
			qs, _ := json.Marshal(q)
			r.fail("C17/dataset-differs-from-table", key, "faces/query %s lists faces %v, the faces satisfying every condition are %v", qs, got, want)
		}
	case "cs/info":
		ds, err := mgmt.ParseCsInfoMsg(enc.NewWireReader(content), true)
		if err != nil || ds.CsInfo == nil {
			r.fail("C17/dataset-undecodable", key, "%v", err)
			return
		}
		if int(ds.CsInfo.Capacity) != csCap {
			r.fail("C17/dataset-differs-from-table", key, "cs/info capacity %d, configured %d", ds.CsInfo.Capacity, csCap)
		}
	case "status/general":
		ds, err := mgmt.ParseGeneralStatus(enc.NewWireReader(content), true)
		if err != nil {
			r.fail("C17/dataset-undecodable", key, "%v", err)
			return
		}
		if int(ds.NFibEntries) != len(fib) {
			r.fail("C17/dataset-differs-from-table", key, "status/general reports %d FIB entries, table has %d", ds.NFibEntries, len(fib))
		}
		now := r.threadCounters()
		vals := [6]uint64{ds.NInInterests, ds.NInData, ds.NOutInterests, ds.NOutData, ds.NSatisfiedInterests, ds.NUnsatisfiedInterests}
		names := [6]string{"NInInterests", "NInData", "NOutInterests", "NOutData", "NSatisfiedInterests", "NUnsatisfiedInterests"}
		for i := range vals {
			if vals[i] < threads0[i] || vals[i] > now[i] {
				r.fail("C17/dataset-differs-from-table", key+"/counters", "status/general reports %s=%d; the forwarding threads counted %d before the request and %d after the answer", names[i], vals[i], threads0[i], now[i])
			}
		}
	}
}
