// Package objsim runs a real object producer and a real object consumer
// (std/object clients on std/engine/basic engines) in one synctest bubble,
// joined by a simulated network that delays, reorders, duplicates and drops
// Interests and Data according to the scenario. Property C15.
package objsim

import (
	"runtime"
	"bytes"
	"fmt"
	"os"
	"path/filepath"
	"sort"
	"strings"
	"sync"
	"testing"
	"testing/synctest"
	"time"

	enc "github.com/named-data/ndnd/std/encoding"
	basic "github.com/named-data/ndnd/std/engine/basic"
	"github.com/named-data/ndnd/std/ndn"
	"github.com/named-data/ndnd/std/utils"
	spec "github.com/named-data/ndnd/std/ndn/spec_2022"
	"github.com/named-data/ndnd/std/object"
	sec "github.com/named-data/ndnd/std/security"

	"verifsim/facesim"
	"verifsim/kit"
)

type Config struct {
	Store     string `json:"store"`      // memory | bolt
	SpareCap  int    `json:"spare_cap"`  // spare capacity of the name slice handed to Produce
	NameDepth int    `json:"name_depth"` // components of the object name
}

type Op struct {
	Op string `json:"op"` // publish consume net storeop restart
	// publish
	Version uint64 `json:"version,omitempty"`
	Size    int    `json:"size,omitempty"`
	Splits  []int  `json:"splits,omitempty"` // buffer lengths the content is handed over in (cyclic)
	Obj int `json:"obj,omitempty"` // publish / net: which of the two objects (0 or 1)
	// net: fault applied to the Attempt-th Interest (0-based) for segment Seg (-1 = metadata) of the next consume
	Seg     int    `json:"seg,omitempty"`
	Attempt int    `json:"attempt,omitempty"`
	Act     string `json:"act,omitempty"` // drop | delay | dup | dropdata | delaydata | dupdata | blackout (every Interest for a segment >= 1 of the object is lost, all attempts); restart: graceful | crash
	// consume: the fetch of the second object starts StaggerMs after the first (0 = together)
	StaggerMs int `json:"stagger_ms,omitempty"`
	// consume: ask by the versioned name of the newest version (no metadata discovery) instead of the object name
	ByVersion bool `json:"by_version,omitempty"`
	// consume: simulated time that passes after the fetch before the next op, if every fetch succeeded (0 = 20 s;
	// after a failed fetch it is always 20 s, until the client's retransmissions have died down)
	GapMs int `json:"gap_ms,omitempty"`
	DelayMs int    `json:"delay_ms,omitempty"`
	// restart: the producer process ends (graceful: stores closed; crash: whatever the store file holds at that
	// instant is what survives) and a new producer starts on the durable state. DelayMs == 0: now; > 0: that long
	// after the next consume has started.
	// storeop: differential operations on both store implementations
	// net, act corrupt / corruptdata (C04 runs only): the packet is altered in transit
	Mut string `json:"mut,omitempty"`
	At  int    `json:"at,omitempty"`
	Val uint64 `json:"val,omitempty"`
	SOp   string `json:"sop,omitempty"` // put remove removeprefix get getprefix begin commit rollback bulk (SVer packets seg=0.. under SName, in one transaction)
	SName string `json:"sname,omitempty"`
	SVer  uint64 `json:"sver,omitempty"`
}

type Engine struct{}

func (Engine) Name() string { return "objsim" }

func (Engine) Generate(prop string, r *kit.Rand, tier string) *kit.Scenario[Config, Op] {
	sc := &kit.Scenario[Config, Op]{}
	c := &sc.Config
	c.Store = kit.Pick(r, []string{"memory", "memory", "bolt"})
	c.SpareCap = kit.Pick(r, []int{0, 0, 1, 2, 3, 4, 8})
	c.NameDepth = r.Range(1, 3)
	nver := r.Weighted([]int{0, 6, 3, 2, 1, 1, 1})
	if nver == 0 {
		nver = 1
	}
	vers := r.Perm(9)[:nver]
	maxSegs := 0
	for vi, v := range vers {
		o := Op{Op: "publish", Version: uint64(v + 1)}
		if r.Chance(0.15) {
			o.Version = kit.Pick(r, []uint64{255, 256, 65535, 65536, 1 << 40})
		}
		if vi == 0 && r.Chance(0.1) {
			o.Version = 0 // a version number like any other
		}
		switch r.Weighted([]int{4, 4, 3, 2}) {
		case 0:
			o.Size = kit.Pick(r, []int{1, 2, 7999, 8000, 8001, 15999, 16000, 16001})
		case 1:
			k := r.Range(1, 12)
			o.Size = k*8000 + kit.Pick(r, []int{-1, 0, 1})
		case 2:
			o.Size = r.Range(1, 100000)
		case 3:
			k := r.Range(12, 40)
			if tier != "thorough" {
				k = r.Range(12, 20)
			}
			o.Size = k*8000 + kit.Pick(r, []int{-1, 0, 1})
		}
		n := r.Range(1, 4)
		for i := 0; i < n; i++ {
			o.Splits = append(o.Splits, kit.Pick(r, []int{1, 7, 100, 7999, 8000, 8001, 20000, 1 << 20}))
		}
		if segs := (o.Size-1)/8000 + 1; segs > maxSegs {
			maxSegs = segs
		}
		sc.Ops = append(sc.Ops, o)
	}
	// sometimes a second object is published and fetched concurrently with the first
	second := r.Chance(0.35)
	if second {
		o := Op{Op: "publish", Obj: 1, Version: uint64(r.Range(1, 9)), Size: kit.Pick(r, []int{1, 8000, 8001, 24000, 90000, 120001})}
		if segs := (o.Size-1)/8000 + 1; segs > maxSegs {
			maxSegs = segs
		}
		sc.Ops = append(sc.Ops, o)
	}
	// store-level differential operations
	if r.Chance(0.5) {
		// (the last two: names whose text - not whose components - begins like another name's or another version's)
		names := []string{"/s/a/v=1/seg=0", "/s/a/v=2/seg=0", "/s/a/v=2/seg=1", "/s/b/v=3/seg=0", "/s/a/32=metadata/v=1/seg=0", "/s/a/32=metadata/v=2/seg=0",
			"/s/a/v=21/seg=0", "/s/ab/v=1/seg=0"}
		n := r.Range(2, 14)
		for i := 0; i < n; i++ {
			o := Op{Op: "storeop", SName: kit.Pick(r, names)}
			switch r.Weighted([]int{5, 2, 1, 3, 3, 1, 1, 1}) {
			case 5:
				o.SOp = "begin"
			case 6:
				o.SOp = "commit"
			case 7:
				o.SOp = "rollback"
			case 0:
				o.SOp, o.SVer = "put", uint64(r.Range(0, 5))
			case 1:
				o.SOp = "remove"
			case 2:
				o.SOp, o.SName = "removeprefix", kit.Pick(r, []string{"/s/a", "/s/a/v=2", "/s/a/v=2", "/s/b", "/s"})
			case 3:
				o.SOp = "get"
			case 4:
				o.SOp, o.SName = "getprefix", kit.Pick(r, []string{"/s/a/32=metadata", "/s/a/v=2", "/s/b", "/s/c"})
			}
			sc.Ops = append(sc.Ops, o)
		}
		if r.Chance(0.3) {
			// a reader looks a prefix up while a writer's transaction is open (what a discovery Interest does that
			// arrives while Produce is at work), and again after the commit
			k := kit.Pick(r, []int{4, 5})
			pfx := "/s/a/32=metadata"
			sc.Ops = append(sc.Ops, Op{Op: "storeop", SOp: "begin"}, Op{Op: "storeop", SOp: "put", SName: names[k], SVer: uint64(k - 3)},
				Op{Op: "storeop", SOp: "getprefix", SName: pfx}, Op{Op: "storeop", SOp: "commit"}, Op{Op: "storeop", SOp: "getprefix", SName: pfx})
		}
	}
	// a large object's worth of packets under one prefix, removed by prefix later (the stores' scans are long then)
	if r.Chance(0.02) {
		nb := kit.Pick(r, []int{998, 999, 1000, 1001, 1002, 1500, 2500})
		sc.Ops = append(sc.Ops, Op{Op: "storeop", SOp: "bulk", SName: "/s/big/v=7", SVer: uint64(nb)},
			Op{Op: "storeop", SOp: "get", SName: fmt.Sprintf("/s/big/v=7/seg=%d", nb-1)},
			Op{Op: "storeop", SOp: "removeprefix", SName: kit.Pick(r, []string{"/s/big", "/s/big/v=7", "/s"})},
			Op{Op: "storeop", SOp: "get", SName: fmt.Sprintf("/s/big/v=7/seg=%d", nb-1)},
			Op{Op: "storeop", SOp: "get", SName: "/s/big/v=7/seg=998"},
			Op{Op: "storeop", SOp: "getprefix", SName: "/s/big"})
	}
	// network faults for the fetch
	mode := r.Weighted([]int{3, 5, 2})
	nf := 0
	switch mode {
	case 1:
		nf = r.Range(1, 8)
	case 2:
		nf = r.Range(4, 16)
	}
	for i := 0; i < nf; i++ {
		o := Op{Op: "net", Seg: r.Range(-1, maxSegs-1), Attempt: r.Weighted([]int{6, 3, 2, 1, 1})}
		if second && r.Bool() {
			o.Obj = 1
		}
		o.Act = kit.Pick(r, []string{"drop", "drop", "delay", "dup", "dropdata", "delaydata", "dupdata"})
		if mode == 2 && r.Chance(0.4) {
			o.Act = "drop"
		}
		if r.Chance(0.05) {
			o.Act = "nack"
		}
		o.DelayMs = kit.Pick(r, []int{1, 10, 100, 500, 900, 1500, 3900, 4100})
		sc.Ops = append(sc.Ops, o)
	}
	if prop == "C04" {
		for i, n := 0, r.Range(2, 12); i < n; i++ {
			sg := r.Range(-1, maxSegs-1)
			if r.Chance(0.25) {
				sg = -1 // the metadata exchange
			}
			o := Op{Op: "net", Seg: sg, Attempt: r.Weighted([]int{6, 3, 2, 1}), Act: kit.Pick(r, []string{"corrupt", "corruptdata", "corruptdata", "corruptdata"})}
			if second && r.Bool() {
				o.Obj = 1
			}
			o.Mut, o.At, o.Val = facesim.GenMutFix(r, 64, 9000)
			if sg >= 0 && o.Act == "corruptdata" && r.Chance(0.12) {
				o.Mut, o.Val = "finalblock", kit.Pick(r, []uint64{0, 1, 1 << 16, 1 << 24, 99_999_998, 99_999_999, 100_000_000, 1<<31 - 1, 1<<63 - 1, 1<<64 - 1})
			}
			sc.Ops = append(sc.Ops, o)
		}
	}
	if second && r.Chance(0.5) {
		// one fetch loses a segment for good while the other still has all its Interests outstanding
		a := r.Intn(2)
		for at := 0; at < 4; at++ {
			sc.Ops = append(sc.Ops, Op{Op: "net", Obj: a, Seg: r.Intn(2) * 0, Attempt: at, Act: "drop"})
		}
		b := 1 - a
		if r.Chance(0.7) {
			sc.Ops = append(sc.Ops, Op{Op: "net", Obj: b, Seg: 0, Attempt: 0, Act: "delaydata", DelayMs: kit.Pick(r, []int{100, 500, 900, 1500})})
		}
		sb := r.Range(1, 2)
		for at := 0; at < r.Range(3, 4); at++ {
			sc.Ops = append(sc.Ops, Op{Op: "net", Obj: b, Seg: sb, Attempt: at, Act: "drop"})
		}
	}
	// one object becomes unreachable after its metadata (every segment Interest lost) while the other is asked for a
	// little later, when the first one's Interests fill the fetch window
	stagger := 0
	if second && r.Chance(0.15) {
		if r.Chance(0.7) {
			// ... and is large enough to fill the whole window (10 Interests) by itself
			k := r.Range(11, 24)
			sc.Ops = append(sc.Ops, Op{Op: "publish", Obj: 0, Version: 9000 + uint64(r.Intn(9)), Size: k*8000 + kit.Pick(r, []int{-1, 0, 1})})
			if k > maxSegs {
				maxSegs = k + 1
			}
		}
		sc.Ops = append(sc.Ops, Op{Op: "net", Obj: 0, Seg: 0, Act: "blackout"})
		stagger = kit.Pick(r, []int{1, 50, 1500, 5000})
	}
	// producer restart: before the fetch (durable state must serve it), or while it is running
	if r.Chance(0.25) {
		o := Op{Op: "restart", Act: kit.Pick(r, []string{"graceful", "crash"})}
		if r.Chance(0.5) {
			o.DelayMs = kit.Pick(r, []int{1, 5, 50, 500, 1100, 2500, 6000})
		}
		sc.Ops = append(sc.Ops, o)
	}
	first := Op{Op: "consume", StaggerMs: stagger, ByVersion: r.Chance(0.2)}
	again := r.Chance(0.15)
	if again && r.Chance(0.6) {
		first.GapMs = kit.Pick(r, []int{1, 100, 900, 1100, 3000, 3900}) // the same consumer asks again soon
	}
	sc.Ops = append(sc.Ops, first)
	if again {
		// a second round: publish a newer version (or restart) after the first fetch, fetch again
		if r.Chance(0.6) {
			sc.Ops = append(sc.Ops, Op{Op: "publish", Version: 5000 + uint64(r.Intn(50)), Size: kit.Pick(r, []int{1, 8000, 8001, 30000})})
		}
		if r.Chance(0.6) {
			sc.Ops = append(sc.Ops, Op{Op: "restart", Act: kit.Pick(r, []string{"graceful", "crash"})})
		}
		sc.Ops = append(sc.Ops, Op{Op: "consume"})
	}
	return sc
}

func (Engine) Simplify(sc *kit.Scenario[Config, Op]) []*kit.Scenario[Config, Op] {
	var out []*kit.Scenario[Config, Op]
	modC := func(f func(c *Config)) {
		n := sc.WithOps(sc.Ops)
		c := sc.Config
		f(&c)
		n.Config = c
		out = append(out, n)
	}
	if sc.Config.Store != "memory" {
		modC(func(c *Config) { c.Store = "memory" })
	}
	if sc.Config.SpareCap != 0 {
		modC(func(c *Config) { c.SpareCap = 0 })
	}
	if sc.Config.NameDepth != 1 {
		modC(func(c *Config) { c.NameDepth = 1 })
	}
	for i, o := range sc.Ops {
		mod := func(f func(o *Op)) {
			ops := append([]Op(nil), sc.Ops...)
			f(&ops[i])
			out = append(out, sc.WithOps(ops))
		}
		if o.Op == "publish" {
			if o.Size > 1 {
				mod(func(o *Op) { o.Size = (o.Size + 1) / 2 })
				mod(func(o *Op) { o.Size = ((o.Size-1)/8000)*8000 + 1 })
			}
			if len(o.Splits) > 1 || (len(o.Splits) == 1 && o.Splits[0] != 1<<20) {
				mod(func(o *Op) { o.Splits = []int{1 << 20} })
			}
		}
		if o.Op == "net" && o.DelayMs > 1 {
			mod(func(o *Op) { o.DelayMs = 1 })
		}
	}
	return out
}

// ---------------------------------------------------------------- simulated face

type simFace struct {
	running bool
	onPkt   func(r enc.ParseReader) error
	mu      sync.Mutex // Send is reached from the client's run loop and from timer goroutines
	out     *[][]byte
}

func (f *simFace) drain() [][]byte {
	f.mu.Lock()
	defer f.mu.Unlock()
	o := *f.out
	*f.out = nil
	return o
}

func (f *simFace) Open() error     { f.running = true; return nil }
func (f *simFace) Close() error    { f.running = false; return nil }
func (f *simFace) IsRunning() bool { return f.running }
func (f *simFace) IsLocal() bool   { return true }
func (f *simFace) SetCallback(onPkt func(r enc.ParseReader) error, onError func(err error) error) {
	f.onPkt = onPkt
}
func (f *simFace) Send(pkt enc.Wire) error {
	f.mu.Lock()
	defer f.mu.Unlock()
	*f.out = append(*f.out, append([]byte(nil), pkt.Join()...))
	return nil
}

type inflight struct {
	at    time.Duration
	seq   int
	toP   bool
	frame []byte
}

func contentOf(version uint64, size int) []byte {
	b := make([]byte, size)
	x := uint32(version*2654435761 + 12345)
	for i := range b {
		x = x*1664525 + 1013904223
		b[i] = byte(x >> 24)
	}
	return b
}

func mkName(s string) enc.Name {
	n, err := enc.NameFromStr(s)
	if err != nil {
		panic("harness: bad name " + s)
	}
	return n
}

func (e Engine) Run(t *testing.T, ctx *kit.Ctx, sc *kit.Scenario[Config, Op]) *kit.Result {
	res := &kit.Result{}
	var pan any
	var site string
	dir, err := os.MkdirTemp("", "objsim")
	if err != nil {
		panic("harness: tempdir: " + err.Error())
	}
	defer os.RemoveAll(dir)
	synctest.Test(t, func(t *testing.T) {
		defer func() {
			if p := recover(); p != nil {
				pan, site = p, kit.PanicSite()
			}
		}()
		e.run(ctx, sc, res, dir)
	})
	if pan != nil {
		if strings.HasPrefix(site, "harness:") || strings.Contains(fmt.Sprint(pan), "deadlock") {
			panic(pan)
		}
		msg := fmt.Sprint(pan)
		if len(msg) > 300 {
			msg = msg[:300]
		}
		res.Violation = &kit.Violation{Class: sc.Property + "/panic", Key: site, Step: -1, Detail: msg}
	}
	return res
}

type modelStore map[string]struct {
	ver  uint64
	wire string
}

// storeModel is the reference for the differential store operations: what is committed, and the open
// transaction (Begin .. Commit/Rollback) if there is one.
type storeModel struct {
	committed modelStore
	inTx      bool
	pending   modelStore
	// removals issued while the transaction was open: the on-disk store can only execute them once its single
	// write transaction has ended (they would block for ever otherwise), the in-memory store executes them at once
	deferredBolt []func()
	deferredPat  []string // "name" or "name/*"
}

// removedInTx: the open transaction already removed this name (the on-disk removal is still to come)
func (sm *storeModel) removedInTx(n string) bool {
	for _, p := range sm.deferredPat {
		if q, ok := strings.CutSuffix(p, "/*"); ok {
			if n == q || strings.HasPrefix(n, q+"/") {
				return true
			}
		} else if n == p {
			return true
		}
	}
	return false
}

func (sm *storeModel) endTx(commit bool) {
	if commit {
		for k, v := range sm.pending {
			sm.committed[k] = v
		}
	}
	sm.pending = modelStore{}
	sm.inTx = false
	for _, f := range sm.deferredBolt {
		f()
	}
	sm.deferredBolt = nil
	sm.deferredPat = nil
}

func (e Engine) run(ctx *kit.Ctx, sc *kit.Scenario[Config, Op], res *kit.Result, dir string) {
	start := time.Now()
	now := func() time.Duration { return time.Since(start) }
	step := 0
	fail := func(class, key, format string, a ...any) {
		// a C04 run corrupts packets in transit (nothing validates signatures here): what the fetch returns is
		// not judged, only that nothing crashes, hangs or allocates out of proportion
		if sc.Property == "C04" && !strings.HasPrefix(class, "C04/") {
			return
		}
		if res.Violation == nil {
			res.Violation = &kit.Violation{Class: class, Key: key, Step: step, Detail: fmt.Sprintf(format, a...)}
		}
	}
	// stores
	var pstore ndn.Store
	var bolt *object.BoltStore
	mem := object.NewMemoryStore()
	var err error
	bolt, err = object.NewBoltStore(filepath.Join(dir, "p.db"))
	if err != nil {
		panic("harness: bolt: " + err.Error())
	}
	boltPath := filepath.Join(dir, "p.db")
	var oldBolts []*object.BoltStore // handles of crashed incarnations (closed at the end)
	defer func() {
		bolt.Close()
		for _, b := range oldBolts {
			b.Close()
		}
	}()
	if sc.Config.Store == "bolt" {
		pstore = bolt
	} else {
		pstore = mem
	}
	// second pair of stores for differential store operations
	dmem := object.NewMemoryStore()
	dbolt, err := object.NewBoltStore(filepath.Join(dir, "d.db"))
	if err != nil {
		panic("harness: bolt: " + err.Error())
	}
	defer dbolt.Close()
	ms := &storeModel{committed: modelStore{}, pending: modelStore{}}
	defer func() {
		if ms.inTx { // an open write transaction would block Close
			dmem.Commit()
			dbolt.Commit()
			ms.endTx(true)
		}
	}()

	var fromP, fromC [][]byte
	fp := &simFace{out: &fromP}
	fc := &simFace{out: &fromC}
	signer := sec.NewSha256Signer()
	check := func(enc.Name, enc.Wire, ndn.Signature) bool { return true }
	ep := basic.NewEngine(fp, basic.NewTimer(), signer, check)
	ec := basic.NewEngine(fc, basic.NewTimer(), signer, check)
	ep.Start()
	ec.Start()
	producer := object.NewClient(ep, pstore)
	consumer := object.NewClient(ec, object.NewMemoryStore())
	if err := producer.Start(); err != nil {
		panic("harness: producer start: " + err.Error())
	}
	if err := consumer.Start(); err != nil {
		panic("harness: consumer start: " + err.Error())
	}
	defer func() {
		producer.Stop()
		consumer.Stop()
		synctest.Wait()
	}()

	published := [2]map[uint64][]byte{{}, {}}
	newest := [2]uint64{}
	has := [2]bool{} // something is published (version 0 is a version)
	everPublished := [2]bool{}
	storeLost := false // the producer lost its (in-memory) store at some point of the current fetch
	incarnation := 0
	restart := func(act string) {
		ctx.Fault("producer-restart-" + act + "-" + sc.Config.Store)
		producer.Stop()
		ep.Stop()
		synctest.Wait()
		if sc.Config.Store == "bolt" {
			if act == "graceful" {
				if err := bolt.Close(); err != nil {
					panic("harness: bolt close: " + err.Error())
				}
			} else {
				// crash: the process is gone; what the file holds now is what the next incarnation finds
				b, err := os.ReadFile(boltPath)
				if err != nil {
					panic("harness: read store file: " + err.Error())
				}
				oldBolts = append(oldBolts, bolt)
				incarnation++
				boltPath = filepath.Join(dir, fmt.Sprintf("p%d.db", incarnation))
				if err := os.WriteFile(boltPath, b, 0o600); err != nil {
					panic("harness: write store file: " + err.Error())
				}
			}
			nb, err := object.NewBoltStore(boltPath)
			if err != nil {
				fail("C15/store-unusable-after-restart", act, "reopening the on-disk store after a %s restart: %v", act, err)
				nb, _ = object.NewBoltStore(filepath.Join(dir, fmt.Sprintf("fresh%d.db", incarnation)))
			}
			bolt = nb
			pstore = bolt
		} else {
			// the in-memory store dies with the process
			pstore = object.NewMemoryStore()
			published = [2]map[uint64][]byte{{}, {}}
			newest = [2]uint64{}
			has = [2]bool{}
			storeLost = true
		}
		fp = &simFace{out: &fromP}
		ep = basic.NewEngine(fp, basic.NewTimer(), signer, check)
		ep.Start()
		producer = object.NewClient(ep, pstore)
		if err := producer.Start(); err != nil {
			panic("harness: producer restart: " + err.Error())
		}
	}
	pendingRestart := []*Op{}
	corrupted := 0

	suffix := ""
	for i := 1; i < sc.Config.NameDepth; i++ {
		suffix += fmt.Sprintf("/c%d", i)
	}
	objNames := [2]string{"/obj" + suffix, "/objB" + suffix}
	type fault struct {
		act   string
		delay time.Duration
		op    *Op
	}
	faults := map[string]*fault{} // "obj|seg|attempt|interest/data"
	blackout := [2]bool{}
	nacked := [2]bool{} // a Nack answers one of the object's Interests: that fetch may end in an error
	dropsPerSeg := map[[2]int]int{}

	for i := range sc.Ops {
		o := &sc.Ops[i]
		step = i
		ob := o.Obj & 1
		switch o.Op {
		case "publish":
			content := contentOf(o.Version+uint64(ob)*977, o.Size)
			// hand the content over in the scenario's buffer split
			var wire enc.Wire
			for off, k := 0, 0; off < len(content); k++ {
				n := 1 << 20
				if len(o.Splits) > 0 {
					n = o.Splits[k%len(o.Splits)]
				}
				if n < 1 {
					n = 1
				}
				if n > len(content)-off {
					n = len(content) - off
				}
				wire = append(wire, append([]byte(nil), content[off:off+n]...))
				off += n
			}
			base := mkName(objNames[ob])
			name := make(enc.Name, len(base), len(base)+sc.Config.SpareCap)
			copy(name, base)
			v := o.Version
			got, err := producer.Produce(object.ProduceArgs{Name: name, Content: wire, Version: &v})
			if err != nil {
				fail("C15/produce-failed", "", "Produce(%s, %d bytes, v=%d) = %v", objNames[ob], o.Size, o.Version, err)
				return
			}
			want := append(mkName(objNames[ob]), enc.NewVersionComponent(o.Version))
			if !got.Equal(want) {
				fail("C15/produced-name-wrong", fmt.Sprintf("spare-cap=%v", sc.Config.SpareCap > 0), "Produce returned %s, expected %s (name slice had spare capacity %d)", got, want, sc.Config.SpareCap)
				return
			}
			published[ob][o.Version] = content
			everPublished[ob] = true
			if !has[ob] || o.Version > newest[ob] {
				newest[ob] = o.Version
			}
			has[ob] = true
			res.Steps++
		case "restart":
			if o.DelayMs > 0 {
				pendingRestart = append(pendingRestart, o)
			} else {
				restart(o.Act)
			}
			res.Steps++
		case "storeop":
			e.storeOp(ctx, o, dmem, dbolt, ms, fail)
			res.Steps++
			if res.Violation != nil {
				return
			}
		case "net":
			kind := "interest"
			act := o.Act
			if strings.HasSuffix(act, "data") {
				kind, act = "data", strings.TrimSuffix(act, "data")
			}
			faults[fmt.Sprintf("%d|%d|%d|%s", ob, o.Seg, o.Attempt, kind)] = &fault{act: act, delay: time.Duration(o.DelayMs) * time.Millisecond, op: o}
			// a dropped transmission costs the name one of its four attempts; so does one
			// delayed to (nearly) the Interest lifetime (1 s for metadata, 4 s for segments)
			limit := 3500
			if o.Seg == -1 {
				limit = 800
			}
			if act == "drop" || (act == "delay" && o.DelayMs >= limit) {
				dropsPerSeg[[2]int{ob, o.Seg}]++
			}
			if act == "blackout" {
				blackout[ob] = true
				ctx.Fault("object-blackout")
			}
			if act == "nack" {
				nacked[ob] = true
			}
		case "consume":
			type fetch struct {
				obj         int
				want        []byte
				nseg        int
				got         []byte
				completions int
				cerr        error
				progress    int
				lossBeyond  bool
				mustFail    bool // nothing is stored under the name any more
				spare       enc.Name // the whole array behind the name slice handed to Consume
				nameLen     int
			}
			var fetches []*fetch
			maxSeg := 0
			storeLost = false
			for ob := 0; ob < 2; ob++ {
				if !has[ob] {
					if everPublished[ob] {
						// published once, lost with the in-memory store: the fetch must end, and not in success
						fetches = append(fetches, &fetch{obj: ob, mustFail: true, nseg: 1})
					}
					continue
				}
				f := &fetch{obj: ob, want: published[ob][newest[ob]]}
				f.nseg = (len(f.want)-1)/8000 + 1
				if f.nseg > maxSeg {
					maxSeg = f.nseg
				}
				for k, n := range dropsPerSeg {
					if k[0] == ob && n >= 4 && k[1] < f.nseg {
						f.lossBeyond = true // a name may lose all four attempts (first try + 3 retries)
					}
				}
				fetches = append(fetches, f)
			}
			if len(fetches) == 0 {
				continue
			}
			if len(fetches) == 2 {
				ctx.Probe("two-concurrent-fetches")
			}
			startFetch := func(f *fetch) {
				// the application's name slice has room to grow, as slices built with append usually do
				nm := append(make(enc.Name, 0, 12), mkName(objNames[f.obj])...)
				if o.ByVersion && !f.mustFail {
					nm = append(nm, enc.NewVersionComponent(newest[f.obj]))
					ctx.Probe("fetch-by-versioned-name")
				}
				// ... and the room belongs to the application: the array may hold a longer name of which this one is
				// a prefix (long[:2] handed to one request, long[:3] to another); a client that appends to the slice
				// it was given writes into that other name
				spare := nm[:cap(nm)]
				for k := len(nm); k < len(spare); k++ {
					spare[k] = enc.NewStringComponent(enc.TypeGenericNameComponent, "application-data")
				}
				f.spare, f.nameLen = spare, len(nm)
				consumer.Consume(nm, func(st *object.ConsumeState) bool {
					f.progress++
					f.got = append(f.got, st.Content()...)
					if st.IsComplete() {
						f.completions++
						f.cerr = st.Error()
					}
					return true
				})
			}
			var later []*fetch
			for _, f := range fetches {
				if blackout[f.obj] || nacked[f.obj] {
					f.lossBeyond = true
				}
				if f.obj == 1 && o.StaggerMs > 0 && len(fetches) == 2 {
					later = append(later, f)
					continue
				}
				startFetch(f)
			}
			allDone := func() bool {
				for _, f := range fetches {
					if f.completions == 0 {
						return false
					}
				}
				return true
			}
			// the network
			var queue []inflight
			seq := 0
			attempts := map[[2]int]int{} // per (object, segment): Interests seen
			dattempts := map[[2]int]int{}
			segOf := func(frame []byte) (int, int, bool, string) {
				p, _, err := spec.ReadPacket(enc.NewBufferReader(frame))
				if err != nil {
					return 0, -2, false, ""
				}
				var n enc.Name
				isData := false
				if p.Interest != nil {
					n = p.Interest.NameV
				} else if p.Data != nil {
					n, isData = p.Data.NameV, true
				} else {
					return 0, -2, false, ""
				}
				ob := 0
				if len(n) > 0 && string(n[0].Val) == "objB" {
					ob = 1
				}
				for _, c := range n {
					if c.Typ == enc.TypeKeywordNameComponent {
						return ob, -1, isData, n.String()
					}
				}
				if len(n) > 0 && n[len(n)-1].Typ == enc.TypeSegmentNameComponent {
					return ob, int(n[len(n)-1].NumberVal()), isData, n.String()
				}
				return ob, -2, isData, n.String()
			}
			// packets sent at the same instant by different goroutines are taken in a canonical order
			sortByName := func(fs [][]byte) [][]byte {
				sort.SliceStable(fs, func(i, j int) bool {
					_, _, _, a := segOf(fs[i])
					_, _, _, b := segOf(fs[j])
					return a < b
				})
				return fs
			}
			deadline := now() + time.Duration(maxSeg/10+3)*20*time.Second + 30*time.Second
			reordered, retrans := false, false
			lastDeliveredSeg := [2]int{-1, -1}
			consumeStart := now()
			var ms0 runtime.MemStats
			if sc.Property == "C04" {
				runtime.ReadMemStats(&ms0)
			}
			for {
				// quiescence first: the completion callbacks run on the client's goroutine
				synctest.Wait()
				if allDone() || now() >= deadline {
					break
				}
				if len(later) > 0 && now()-consumeStart >= time.Duration(o.StaggerMs)*time.Millisecond {
					for _, f := range later {
						startFetch(f)
					}
					later = nil
					ctx.Probe("second-fetch-started-later")
					synctest.Wait()
				}
				for len(pendingRestart) > 0 && now()-consumeStart >= time.Duration(pendingRestart[0].DelayMs)*time.Millisecond {
					act := pendingRestart[0].Act
					pendingRestart = pendingRestart[1:]
					restart(act)
					ctx.Probe("producer-restart-during-fetch")
				}
				// take what both sides sent
				for _, f := range sortByName(fc.drain()) {
					ob, seg, _, _ := segOf(f)
					a := attempts[[2]int{ob, seg}]
					attempts[[2]int{ob, seg}]++
					if a > 0 {
						retrans = true
						ctx.Probe("retransmission")
					}
					fl := faults[fmt.Sprintf("%d|%d|%d|interest", ob, seg, a)]
					if blackout[ob] && seg >= 1 { // segment 0 (which tells the consumer how many there are) still gets through
						ctx.Fault("interest-drop")
						continue
					}
					at := now()
					if fl != nil {
						ctx.Fault("interest-" + fl.act)
						switch fl.act {
						case "drop":
							continue
						case "delay":
							at += fl.delay
						case "nack":
							// the network answers with a Nack (no route) after the given delay; a Nack is a final
							// result for the retransmitting client, the fetch may fail - once
							lp := &spec.Packet{LpPacket: &spec.LpPacket{Nack: &spec.NetworkNack{Reason: spec.NackReasonNoRoute}, Fragment: enc.Wire{append([]byte(nil), f...)}}}
							encoder := spec.PacketEncoder{}
							encoder.Init(lp)
							seq++
							queue = append(queue, inflight{at: at + fl.delay, seq: seq, toP: false, frame: encoder.Encode(lp).Join()})
							continue
						case "corrupt":
							f = facesim.Mutate(f, fl.op.Mut, fl.op.At, fl.op.Val)
							corrupted++
							if !res.Ambiguous {
								// a corrupted Interest may still be a valid one for a shorter name; which of several
								// stored packets answers it depends on map order inside the store. Content is not
								// judged in a C04 run
								res.Ambiguous = true
								ctx.Logf("interest corrupted; log ends here")
								if ctx != nil {
									ctx.Log = nil
								}
							}
						case "dup":
							seq++
							queue = append(queue, inflight{at: at + fl.delay, seq: seq, toP: true, frame: f})
						}
					}
					seq++
					queue = append(queue, inflight{at: at, seq: seq, toP: true, frame: f})
				}
				for _, f := range sortByName(fp.drain()) {
					ob, seg, _, _ := segOf(f)
					a := dattempts[[2]int{ob, seg}]
					dattempts[[2]int{ob, seg}]++
					fl := faults[fmt.Sprintf("%d|%d|%d|data", ob, seg, a)]
					at := now()
					if fl != nil {
						ctx.Fault("data-" + fl.act)
						switch fl.act {
						case "drop":
							// a lost Data costs the Interest one attempt
							dropsPerSeg[[2]int{ob, seg}]++
							if dropsPerSeg[[2]int{ob, seg}] >= 4 {
								for _, ft := range fetches {
									if ft.obj == ob {
										ft.lossBeyond = true
									}
								}
							}
							continue
						case "delay":
							at += fl.delay
						case "corrupt":
							if fl.op.Mut == "finalblock" {
								// a producer (or whoever answers in its place) that announces another segment count: the
								// same packet, signed again, with FinalBlockId = Val
								if p, _, err := spec.ReadPacket(enc.NewBufferReader(f)); err == nil && p.Data != nil {
									cfg := &ndn.DataConfig{ContentType: utils.IdPtr(ndn.ContentTypeBlob), Freshness: p.Data.Freshness(),
										FinalBlockID: utils.IdPtr(enc.NewSegmentComponent(fl.op.Val))}
									if ed, err := (spec.Spec{}).MakeData(p.Data.NameV, cfg, p.Data.Content(), signer); err == nil {
										f = ed.Wire.Join()
										ctx.Probe("final-block-id-rewritten")
									}
								}
							} else {
								f = facesim.Mutate(f, fl.op.Mut, fl.op.At, fl.op.Val)
							}
							corrupted++
						case "dup":
							seq++
							queue = append(queue, inflight{at: at + fl.delay, seq: seq, toP: false, frame: f})
						}
					}
					seq++
					queue = append(queue, inflight{at: at, seq: seq, toP: false, frame: f})
				}
				// deliver everything that is due, in (time, seq) order
				sort.Slice(queue, func(i, j int) bool {
					if queue[i].at != queue[j].at {
						return queue[i].at < queue[j].at
					}
					return queue[i].seq < queue[j].seq
				})
				delivered := false
				for len(queue) > 0 && queue[0].at <= now() {
					m := queue[0]
					queue = queue[1:]
					delivered = true
					if ctx != nil && ctx.Log != nil {
						_, _, isD, nm := segOf(m.frame)
						ctx.Logf("t=%v deliver toP=%v data=%v %s", now(), m.toP, isD, nm)
					}
					if m.toP {
						fp.onPkt(enc.NewBufferReader(append([]byte(nil), m.frame...)))
					} else {
						if ob, seg, isData, _ := segOf(m.frame); isData && seg >= 0 {
							if seg < lastDeliveredSeg[ob] {
								reordered = true
								ctx.Probe("segment-reordered")
							}
							lastDeliveredSeg[ob] = max(lastDeliveredSeg[ob], seg)
						}
						fc.onPkt(enc.NewBufferReader(append([]byte(nil), m.frame...)))
					}
					res.Steps++
					// one delivery at a time, each run to quiescence: what the fetcher requests next depends on
					// the order in which it sees the packets
					synctest.Wait()
				}
				if delivered {
					continue
				}
				// nothing due: jump to the next delivery or let timers run
				next := 100 * time.Millisecond
				if len(queue) > 0 && queue[0].at-now() < next {
					next = queue[0].at - now()
				}
				if len(pendingRestart) > 0 {
					if d := consumeStart + time.Duration(pendingRestart[0].DelayMs)*time.Millisecond - now(); d < next {
						next = d
					}
				}
				if len(later) > 0 {
					if d := consumeStart + time.Duration(o.StaggerMs)*time.Millisecond - now(); d < next {
						next = d
					}
				}
				if next < time.Millisecond {
					next = time.Millisecond
				}
				time.Sleep(next)
			}
			synctest.Wait()
			// let duplicates and late packets arrive: completion must not be reported again
			// (every packet reaches its destination at its own time, also after the fetches are over: a late Interest
			// is still answered, and the late answer arrives while nothing is pending - not twenty seconds later,
			// when the next fetch has started)
			for k := 0; k < 200; k++ {
				for _, f := range sortByName(fc.drain()) {
					seq++
					queue = append(queue, inflight{at: now(), seq: seq, toP: true, frame: f})
				}
				for _, f := range sortByName(fp.drain()) {
					seq++
					queue = append(queue, inflight{at: now(), seq: seq, toP: false, frame: f})
				}
				if len(queue) == 0 {
					break
				}
				sort.Slice(queue, func(i, j int) bool {
					if queue[i].at != queue[j].at {
						return queue[i].at < queue[j].at
					}
					return queue[i].seq < queue[j].seq
				})
				if queue[0].at > now() {
					time.Sleep(queue[0].at - now())
					synctest.Wait()
				}
				m := queue[0]
				queue = queue[1:]
				if m.toP {
					fp.onPkt(enc.NewBufferReader(append([]byte(nil), m.frame...)))
				} else {
					fc.onPkt(enc.NewBufferReader(append([]byte(nil), m.frame...)))
				}
				synctest.Wait()
			}
			gap := 20 * time.Second
			if o.GapMs > 0 {
				allOK := true
				for _, f := range fetches {
					if f.completions != 1 || f.cerr != nil {
						allOK = false
					}
				}
				if allOK {
					gap = time.Duration(o.GapMs) * time.Millisecond
					ctx.Probe("next-fetch-follows-shortly")
				}
			}
			time.Sleep(gap)
			synctest.Wait()
			fc.drain() // retransmissions of fetches that have since failed
			fp.drain()
			pendingRestart = nil
			if sc.Property == "C04" {
				var ms1 runtime.MemStats
				runtime.ReadMemStats(&ms1)
				total := 0
				for _, f := range fetches {
					total += len(f.want)
				}
				if grown := ms1.TotalAlloc - ms0.TotalAlloc; grown > 64<<20+200*uint64(total) {
					fail("C04/allocation-out-of-proportion", "object-fetch", "fetching %d bytes of objects over a corrupting link allocated %d bytes", total, grown)
				}
				if corrupted > 0 {
					res.NonTrivial = true
				}
			}
			for _, f := range fetches {
				key := fmt.Sprintf("%s/segs=%d", sc.Config.Store, min(f.nseg, 3))
				if len(fetches) == 2 {
					key += "/concurrent"
				}
				switch {
				case f.completions == 0:
					fail("C15/fetch-never-completes", key, "no completion (success or error) of %s %v after the fetch started; %d progress callbacks, %d of %d bytes", objNames[f.obj], now(), f.progress, len(f.got), len(f.want))
				case f.nameLen < len(f.spare) && string(f.spare[f.nameLen].Val) != "application-data":
					fail("C15/caller-name-array-written", "consume", "Consume(%s) wrote %s into the array behind the name slice it was given (position %d, beyond the slice's length): another request whose name shares that array now asks for a name it did not give", objNames[f.obj], f.spare[f.nameLen], f.nameLen)
				case f.completions > 1:
					fail("C15/completion-reported-twice", key, "completion callback of %s reported %d times", objNames[f.obj], f.completions)
				case f.mustFail && f.cerr == nil:
					fail("C15/served-after-store-lost", key, "fetch of %s succeeded with %d bytes although the producer's in-memory store was lost with the process and nothing was published since", objNames[f.obj], len(f.got))
				case f.mustFail:
				case f.cerr == nil && !bytes.Equal(f.got, f.want):
					at := 0
					for at < len(f.got) && at < len(f.want) && f.got[at] == f.want[at] {
						at++
					}
					fail("C15/content-differs", key, "fetch of %s reported success with %d bytes, newest version v=%d has %d bytes; first difference at offset %d (reordered=%v retransmitted=%v)", objNames[f.obj], len(f.got), newest[f.obj], len(f.want), at, reordered, retrans)
				case f.cerr != nil && !f.lossBeyond && !storeLost:
					fail("C15/fetch-failed-within-retry-budget", key, "fetch of %s (v=%d, %d segments) failed with %v although no name lost more than 3 transmissions", objNames[f.obj], newest[f.obj], f.nseg, f.cerr)
				}
				if f.cerr == nil {
					ctx.Probe("fetch-complete")
				} else {
					ctx.Probe("fetch-error")
				}
				if f.nseg >= 2 && (reordered || retrans) {
					res.NonTrivial = true
				}
			}
		}
	}
	res.SimNanos = int64(now())
	d := kit.NewDigest().S(sc.Config.Store).I(sc.Config.SpareCap)
	for _, o := range sc.Ops {
		d.S(o.Op).I(o.Obj).U(o.Version).I(o.Size).I(o.Seg).I(o.Attempt).S(o.Act).I(o.DelayMs).S(o.SOp).S(o.SName).S(o.Mut).I(o.At).U(o.Val).I(o.StaggerMs).S(fmt.Sprint(o.ByVersion)).I(o.GapMs)
	}
	res.Digest = d.Sum()
	ctx.State(res.Digest)
}

func (e Engine) storeOp(ctx *kit.Ctx, o *Op, mem *object.MemoryStore, bolt *object.BoltStore, sm *storeModel, fail func(class, key, format string, a ...any)) {
	ms := sm.committed
	pendingUnder := func(n string, prefix bool) bool {
		for k := range sm.pending {
			if k == n || (prefix && strings.HasPrefix(k, n+"/")) {
				return true
			}
		}
		return false
	}
	name := mkName(o.SName)
	wire := []byte(fmt.Sprintf("wire-of-%s-v%d", o.SName, o.SVer))
	get := func(prefix bool) (string, string) {
		a, err1 := mem.Get(name, prefix)
		b, err2 := bolt.Get(name, prefix)
		if err1 != nil || err2 != nil {
			fail("C15/store-error", o.SOp, "Get(%s,%v): memory err=%v bolt err=%v", o.SName, prefix, err1, err2)
		}
		return string(a), string(b)
	}
	switch o.SOp {
	case "bulk":
		if sm.inTx {
			return
		}
		ctx.Probe("store/bulk-object")
		mem.Begin()
		bolt.Begin()
		for i := 0; i < int(o.SVer); i++ {
			n := fmt.Sprintf("%s/seg=%d", o.SName, i)
			w := []byte("wire-of-" + n)
			mem.Put(mkName(n), 7, w)
			bolt.Put(mkName(n), 7, w)
			ms[n] = struct {
				ver  uint64
				wire string
			}{7, string(w)}
		}
		mem.Commit()
		bolt.Commit()
	case "begin":
		if !sm.inTx {
			mem.Begin()
			bolt.Begin()
			sm.inTx = true
			ctx.Probe("store/transaction")
		}
	case "commit":
		if sm.inTx {
			mem.Commit()
			bolt.Commit()
			sm.endTx(true)
		}
	case "rollback":
		if sm.inTx {
			mem.Rollback()
			bolt.Rollback()
			sm.endTx(false)
			ctx.Probe("store/rollback")
		}
	case "put":
		if sm.inTx && sm.removedInTx(o.SName) {
			return // keeps the comparison between the two stores unambiguous (see deferredBolt)
		}
		mem.Put(name, o.SVer, wire)
		bolt.Put(name, o.SVer, wire)
		rec := struct {
			ver  uint64
			wire string
		}{o.SVer, string(wire)}
		if sm.inTx {
			sm.pending[o.SName] = rec
		} else {
			ms[o.SName] = rec
		}
	case "remove", "removeprefix":
		prefix := o.SOp == "removeprefix"
		if sm.inTx {
			// a removal while a transaction is open (another user of the store while an object is being
			// produced): only of names the transaction has not written, so that the outcome is unambiguous
			if pendingUnder(o.SName, prefix) {
				return
			}
			ctx.Probe("store/remove-during-transaction")
			mem.Remove(name, prefix)
			sm.deferredBolt = append(sm.deferredBolt, func() { bolt.Remove(name, prefix) })
			if prefix {
				sm.deferredPat = append(sm.deferredPat, o.SName+"/*")
			} else {
				sm.deferredPat = append(sm.deferredPat, o.SName)
			}
		} else {
			mem.Remove(name, prefix)
			bolt.Remove(name, prefix)
		}
		for k := range ms {
			if k == o.SName || (prefix && strings.HasPrefix(k, o.SName+"/")) {
				delete(ms, k)
			}
		}
	case "get":
		if sm.inTx && (pendingUnder(o.SName, false) || len(sm.deferredBolt) > 0) {
			get(false) // visibility of uncommitted writes is not specified; the lookup happens all the same
			return
		}
		a, b := get(false)
		want := ms[o.SName].wire
		if a != want {
			fail("C15/store-get-wrong", "memory/exact", "memory Get(%s) = %q, want %q", o.SName, a, want)
		}
		if b != want {
			fail("C15/store-get-wrong", "bolt/exact", "bolt Get(%s) = %q, want %q", o.SName, b, want)
		}
	case "getprefix":
		if sm.inTx && (pendingUnder(o.SName, true) || len(sm.deferredBolt) > 0) {
			// what this lookup sees is not specified (visibility of uncommitted writes) - but it happens, and
			// lookups after the commit must not be affected by it
			get(true)
			ctx.Probe("store/lookup-inside-transaction")
			return
		}
		a, b := get(true)
		// acceptable: any stored packet under the prefix that has the maximal version; none if none is stored
		maxV, any := uint64(0), false
		for k, v := range ms {
			if strings.HasPrefix(k, o.SName+"/") && (!any || v.ver > maxV) {
				maxV, any = v.ver, true
			}
		}
		ok := func(w string) bool {
			if !any {
				return w == ""
			}
			for k, v := range ms {
				if strings.HasPrefix(k, o.SName+"/") && v.ver == maxV && v.wire == w {
					return true
				}
			}
			return false
		}
		if !ok(a) {
			fail("C15/store-get-wrong", "memory/prefix", "memory Get(%s, prefix) = %q: not a stored packet of the newest version %d under that prefix (removed packets must not be served)", o.SName, a, maxV)
		}
		if !ok(b) {
			fail("C15/store-get-wrong", "bolt/prefix", "bolt Get(%s, prefix) = %q: not a stored packet of the newest version %d under that prefix", o.SName, b, maxV)
		}
	}
}
