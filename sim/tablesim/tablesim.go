// Package tablesim drives the real FIB implementations and the real RIB with
// generated operation histories and compares them with reference models
// (properties C05, C06 and the FIB/RIB half of C08).
package tablesim

import (
	"fmt"
	"sort"
	"strings"
	"testing"

	"github.com/named-data/ndnd/fw/core"
	"github.com/named-data/ndnd/fw/face"
	"github.com/named-data/ndnd/fw/table"
	enc "github.com/named-data/ndnd/std/encoding"

	"verifsim/kit"
)

type Config struct {
	Fib string `json:"fib"` // nametree | hashtable | both (C05 always compares both)
	M   int    `json:"m"`
}

type Op struct {
	Op     string `json:"op"` // C05: ins rem clear setstrat unset batch ; C06: reg unreg cleanup ; C08: + drain
	// batch: several next-hop changes inside one UpdateBatch (what the RIB's flattening uses), spelled in Strat:
	// i = insert (Face, Cost), j = insert (Face+1, Cost+1), c = clear - on Name; I, J, C the same on Name + "/a"
	Name   string `json:"name,omitempty"`
	Face   uint64 `json:"face,omitempty"`
	Cost   uint64 `json:"cost,omitempty"`
	Strat  string `json:"strat,omitempty"`
	Origin uint64 `json:"origin,omitempty"`
	Flags  uint64 `json:"flags,omitempty"`
}

type Engine struct{}

func (Engine) Name() string { return "tablesim" }

var comps = []string{"a", "b", "c"}

const (
	stratBest  = "/localhost/nfd/strategy/best-route/v=1"
	stratMulti = "/localhost/nfd/strategy/multicast/v=1"
)

// lookAlike merges two neighbouring components of a name into one component whose value spells out the boundary
// as a hash that runs over "type, value, type, value" would see it (8-byte type 8 between the two values): a
// different name - one component fewer - that any table keyed by such a hash alone takes for the original.
func lookAlike(r *kit.Rand, n string) string {
	cs := strings.Split(strings.TrimPrefix(n, "/"), "/")
	if len(cs) < 2 {
		return n
	}
	i := r.Intn(len(cs) - 1)
	merged := cs[i] + "%00%00%00%00%00%00%00%08" + cs[i+1]
	out := append(append(append([]string{}, cs[:i]...), merged), cs[i+2:]...)
	return "/" + strings.Join(out, "/")
}

func genName(r *kit.Rand, maxDepth int, pool []string) string {
	if len(pool) > 0 && r.Chance(0.04) {
		return lookAlike(r, kit.Pick(r, pool))
	}
	// reuse an existing name, a prefix or extension of one, or make a fresh one
	if len(pool) > 0 && r.Chance(0.6) {
		n := kit.Pick(r, pool)
		switch r.Intn(4) {
		case 0:
			return n
		case 1: // parent
			if n == "/" {
				return n
			}
			i := strings.LastIndex(n, "/")
			if i == 0 {
				return "/"
			}
			return n[:i]
		case 2: // child
			if strings.Count(n, "/") >= maxDepth && n != "/" {
				return n
			}
			if n == "/" {
				return "/" + kit.Pick(r, comps)
			}
			return n + "/" + kit.Pick(r, comps)
		default: // sibling
			if n == "/" {
				return "/" + kit.Pick(r, comps)
			}
			i := strings.LastIndex(n, "/")
			return n[:i] + "/" + kit.Pick(r, comps)
		}
	}
	d := r.Weighted([]int{1, 3, 4, 4, 3, 2, 2})
	if d > maxDepth {
		d = maxDepth
	}
	if d == 0 {
		return "/"
	}
	var sb strings.Builder
	for i := 0; i < d; i++ {
		sb.WriteString("/")
		sb.WriteString(kit.Pick(r, comps))
	}
	return sb.String()
}

func (Engine) Generate(prop string, r *kit.Rand, tier string) *kit.Scenario[Config, Op] {
	sc := &kit.Scenario[Config, Op]{}
	sc.Config.M = r.Range(1, 6)
	sc.Config.Fib = kit.Pick(r, []string{"nametree", "hashtable"})
	nops := r.Range(3, 40)
	if r.Chance(0.3) {
		nops = r.Range(2, 10)
	}
	nfaces := r.Range(1, 5)
	pool := []string{}
	fibDirect := prop == "C05" || (prop == "C08" && r.Bool())
	switch {
	case fibDirect:
		sc.Config.Fib = "both"
		hot := ""
		if r.Chance(0.25) {
			// one busy prefix: many faces come, go and change cost on the same entry
			hot = genName(r, 4, pool)
			nfaces = r.Range(3, 7)
		}
		for i := 0; i < nops; i++ {
			o := Op{Name: genName(r, 6, pool)}
			w := []int{8, 5, 2, 3, 3}
			if hot != "" && r.Chance(0.55) {
				o.Name = hot
				w = []int{8, 6, 0, 0, 0}
			}
			pool = append(pool, o.Name)
			switch r.Weighted(w) {
			case 0:
				o.Op, o.Face, o.Cost = "ins", uint64(r.Range(1, nfaces)), uint64(r.Intn(4))
				if r.Chance(0.05) {
					o.Cost = ^uint64(0)
				}
				if r.Chance(0.12) {
					// the same kind of change as the RIB's flattening makes it: a few clears and inserts in one batch
					o.Op = "batch"
					o.Cost = uint64(r.Intn(3))
					o.Strat = kit.Pick(r, []string{"ici", "cij", "icj", "ciCI", "iIcC", "cICi", "icicj", "CIcIi", "jcJi"})
				}
			case 1:
				o.Op, o.Face = "rem", uint64(r.Range(1, nfaces))
			case 2:
				o.Op = "clear"
			case 3:
				o.Op, o.Strat = "setstrat", kit.Pick(r, []string{stratBest, stratMulti})
			case 4:
				// The root strategy "can be replaced but not unset": the
				// forwarder enforces that in the management module (checked by
				// C17), and the repository's own table tests unset the root on
				// purpose, so unset(/) is outside this property's domain.
				o.Op = "unset"
				for o.Name == "/" {
					o.Name = genName(r, 6, pool)
				}
			}
			sc.Ops = append(sc.Ops, o)
		}
		if prop == "C08" {
			sc.Ops = append(sc.Ops, Op{Op: "drainfib"})
		}
	default: // C06, C08
		norig := r.Range(1, 3)
		origins := []uint64{0, 128, 255}
		for i := 0; i < nops; i++ {
			o := Op{Name: genName(r, 5, pool)}
			switch r.Weighted([]int{9, 5, 2}) {
			case 0:
				o.Op, o.Face, o.Cost = "reg", uint64(r.Range(1, nfaces)), uint64(r.Intn(4))
				o.Origin = origins[r.Intn(norig)]
				o.Flags = uint64(r.Weighted([]int{2, 5, 2, 2}))
				pool = append(pool, o.Name)
			case 1:
				o.Op, o.Face, o.Origin = "unreg", uint64(r.Range(1, nfaces)), origins[r.Intn(norig)]
				pool = append(pool, o.Name)
			case 2:
				o.Op, o.Face, o.Name = "cleanup", uint64(r.Range(1, nfaces)), ""
			}
			sc.Ops = append(sc.Ops, o)
		}
		if prop == "C08" {
			sc.Ops = append(sc.Ops, Op{Op: "drain"})
		}
	}
	return sc
}

func (Engine) Simplify(sc *kit.Scenario[Config, Op]) []*kit.Scenario[Config, Op] {
	var out []*kit.Scenario[Config, Op]
	mod := func(i int, f func(o *Op)) {
		ops := append([]Op(nil), sc.Ops...)
		f(&ops[i])
		out = append(out, sc.WithOps(ops))
	}
	for i, o := range sc.Ops {
		if o.Cost > 0 {
			mod(i, func(o *Op) { o.Cost = 0 })
		}
		if o.Face > 1 {
			mod(i, func(o *Op) { o.Face = 1 })
		}
		if o.Origin != 0 {
			mod(i, func(o *Op) { o.Origin = 0 })
		}
		if o.Name != "" && o.Name != "/" {
			mod(i, func(o *Op) { // drop last component
				j := strings.LastIndex(o.Name, "/")
				if j == 0 {
					o.Name = "/"
				} else {
					o.Name = o.Name[:j]
				}
			})
		}
	}
	return out
}

var configured bool

func configure() {
	if configured {
		return
	}
	cfg := core.DefaultConfig()
	cfg.Core.LogLevel = "FATAL"
	core.LoadConfig(cfg, "")
	core.InitializeLogger("")
	table.Configure()
	configured = true
}

func childOf(n string) string {
	if n == "/" {
		return "/a"
	}
	return n + "/a"
}

func mkName(s string) enc.Name {
	if s == "/" || s == "" {
		return enc.Name{}
	}
	n, err := enc.NameFromStr(s)
	if err != nil {
		panic("harness: bad name " + s)
	}
	return n
}

func makeFib(kind string, m int) table.FibStrategy {
	core.GetConfig().Tables.Fib.Hashtable.M = uint16(m)
	table.CreateFIBTable(kind)
	return table.FibStrategyTable
}

func nhString(nhs []*table.FibNextHopEntry) string {
	xs := make([]string, 0, len(nhs))
	for _, nh := range nhs {
		xs = append(xs, fmt.Sprintf("%d:%d", nh.Nexthop, nh.Cost))
	}
	sort.Strings(xs)
	return strings.Join(xs, ",")
}

func mapString(m map[uint64]uint64) string {
	xs := make([]string, 0, len(m))
	for f, c := range m {
		xs = append(xs, fmt.Sprintf("%d:%d", f, c))
	}
	sort.Strings(xs)
	return strings.Join(xs, ",")
}

func prefixesOf(n string) []string { // longest first, including n and "/"
	out := []string{}
	for n != "/" && n != "" {
		out = append(out, n)
		i := strings.LastIndex(n, "/")
		if i <= 0 {
			break
		}
		n = n[:i]
	}
	return append(out, "/")
}

func nameStr(n enc.Name) string {
	if len(n) == 0 {
		return "/"
	}
	return n.String()
}

// universe of lookup names: every op name, all prefixes, one-component extensions.
func universe(ops []Op) []string {
	set := map[string]bool{"/": true}
	for _, o := range ops {
		if o.Name == "" {
			continue
		}
		for _, p := range prefixesOf(o.Name) {
			set[p] = true
		}
		if o.Op == "batch" {
			set[childOf(o.Name)] = true
		}
		ext := o.Name + "/zz"
		if o.Name == "/" {
			ext = "/zz"
		}
		set[ext] = true
		set[ext+"/y"] = true
	}
	out := make([]string, 0, len(set))
	for n := range set {
		out = append(out, n)
	}
	sort.Strings(out)
	return out
}

func (e Engine) Run(t *testing.T, ctx *kit.Ctx, sc *kit.Scenario[Config, Op]) *kit.Result {
	configure()
	if sc.Config.Fib == "both" {
		return runC05(ctx, sc)
	}
	return runRib(ctx, sc)
}

// ---------------------------------------------------------------- C05

type fibModelEntry struct {
	nh    map[uint64]uint64
	strat string
}

type fibModel map[string]*fibModelEntry

func (m fibModel) get(n string) *fibModelEntry {
	e := m[n]
	if e == nil {
		e = &fibModelEntry{nh: map[uint64]uint64{}}
		m[n] = e
	}
	return e
}

func (m fibModel) lpmNH(n string) string {
	for _, p := range prefixesOf(n) {
		if e := m[p]; e != nil && len(e.nh) > 0 {
			return mapString(e.nh)
		}
	}
	return ""
}

func (m fibModel) lpmStrat(n string) string {
	for _, p := range prefixesOf(n) {
		if e := m[p]; e != nil && e.strat != "" {
			return e.strat
		}
	}
	return ""
}

func listFib(f table.FibStrategy) (map[string]string, string) {
	out := map[string]string{}
	for _, e := range f.GetAllFIBEntries() {
		k := nameStr(e.Name())
		if _, dup := out[k]; dup {
			return out, "duplicate listing entry " + k
		}
		out[k] = nhString(e.GetNextHops())
	}
	return out, ""
}

func listStrat(f table.FibStrategy) (map[string]string, string) {
	out := map[string]string{}
	for _, e := range f.GetAllForwardingStrategies() {
		k := nameStr(e.Name())
		if _, dup := out[k]; dup {
			return out, "duplicate listing entry " + k
		}
		out[k] = nameStr(e.GetStrategy())
	}
	return out, ""
}

func diffMaps(got, want map[string]string) string {
	keys := map[string]bool{}
	for k := range got {
		keys[k] = true
	}
	for k := range want {
		keys[k] = true
	}
	ks := make([]string, 0, len(keys))
	for k := range keys {
		ks = append(ks, k)
	}
	sort.Strings(ks)
	for _, k := range ks {
		g, gok := got[k]
		w, wok := want[k]
		if gok != wok || g != w {
			return fmt.Sprintf("prefix %s: got %q(present=%v) want %q(present=%v)", k, g, gok, w, wok)
		}
	}
	return ""
}

func runC05(ctx *kit.Ctx, sc *kit.Scenario[Config, Op]) *kit.Result {
	res := &kit.Result{}
	impls := []struct {
		kind string
		f    table.FibStrategy
	}{{"nametree", makeFib("nametree", sc.Config.M)}, {"hashtable", makeFib("hashtable", sc.Config.M)}}
	model := fibModel{}
	model.get("/").strat = stratBest
	uni := universe(sc.Ops)
	maxLive, removals := 0, 0
	dg := kit.NewDigest()
	fail := func(step int, class, key, detail string) *kit.Result {
		res.Violation = &kit.Violation{Class: class, Key: key, Step: step, Detail: detail}
		return res
	}
	for i, o := range sc.Ops {
		name := mkName(o.Name)
		for _, im := range impls {
			switch o.Op {
			case "ins":
				im.f.InsertNextHopEnc(name, o.Face, o.Cost)
			case "rem":
				im.f.RemoveNextHopEnc(name, o.Face)
			case "clear":
				im.f.ClearNextHopsEnc(name)
			case "batch":
				child := mkName(childOf(o.Name))
				im.f.UpdateBatch(func(b table.FibBatch) {
					for _, ch := range o.Strat {
						switch ch {
						case 'i':
							b.InsertNextHopEnc(name, o.Face, o.Cost)
						case 'j':
							b.InsertNextHopEnc(name, o.Face+1, o.Cost+1)
						case 'c':
							b.ClearNextHopsEnc(name)
						case 'I':
							b.InsertNextHopEnc(child, o.Face, o.Cost)
						case 'J':
							b.InsertNextHopEnc(child, o.Face+1, o.Cost+1)
						case 'C':
							b.ClearNextHopsEnc(child)
						}
					}
				})
			case "setstrat":
				im.f.SetStrategyEnc(name, mkName(o.Strat))
			case "unset":
				im.f.UnSetStrategyEnc(name)
			case "drainfib":
				ns := make([]string, 0, len(model))
				for n := range model {
					ns = append(ns, n)
				}
				sort.Strings(ns)
				for k, n := range ns {
					e := model[n]
					fs := make([]uint64, 0, len(e.nh))
					for f := range e.nh {
						fs = append(fs, f)
					}
					sort.Slice(fs, func(a, b int) bool { return fs[a] < fs[b] })
					if k%2 == 0 {
						for _, f := range fs {
							im.f.RemoveNextHopEnc(mkName(n), f)
						}
					} else {
						im.f.ClearNextHopsEnc(mkName(n))
					}
					if n != "/" {
						im.f.UnSetStrategyEnc(mkName(n))
					}
				}
			}
		}
		switch o.Op {
		case "ins":
			model.get(o.Name).nh[o.Face] = o.Cost
		case "rem":
			if e := model[o.Name]; e != nil {
				if _, ok := e.nh[o.Face]; ok {
					removals++
				}
				delete(e.nh, o.Face)
			}
		case "clear":
			if e := model[o.Name]; e != nil {
				if len(e.nh) > 0 {
					removals++
				}
				e.nh = map[uint64]uint64{}
			}
		case "batch":
			ctx.Probe("fib-batch")
			for _, ch := range o.Strat {
				n := o.Name
				if ch == 'I' || ch == 'J' || ch == 'C' {
					n = childOf(o.Name)
				}
				switch ch {
				case 'i', 'I':
					model.get(n).nh[o.Face] = o.Cost
				case 'j', 'J':
					model.get(n).nh[o.Face+1] = o.Cost + 1
				case 'c', 'C':
					if e := model[n]; e != nil {
						if len(e.nh) > 0 {
							removals++
						}
						e.nh = map[uint64]uint64{}
					}
				}
			}
		case "setstrat":
			model.get(o.Name).strat = o.Strat
		case "unset":
			if e := model[o.Name]; e != nil {
				e.strat = ""
			}
		case "drainfib":
			for n, e := range model {
				e.nh = map[uint64]uint64{}
				if n != "/" {
					e.strat = ""
				}
			}
		}
		res.Steps++
		if sc.Property == "C08" {
			for _, im := range impls {
				fs := table.VerifFibStatsOf(im.f)
				if im.kind == "nametree" {
					if fs.TreeNodes != fs.NeededNodes {
						return fail(i, "C08/fib-tree-dead-nodes", "fib-direct/after-"+o.Op,
							fmt.Sprintf("fib tree nodes=%d needed=%d", fs.TreeNodes, fs.NeededNodes))
					}
					if nlive := len(im.f.GetAllFIBEntries()); fs.FibPrefixes > nlive {
						return fail(i, "C08/fib-prefix-index-stale", "fib-direct/after-"+o.Op,
							fmt.Sprintf("fibPrefixes=%d live FIB entries=%d", fs.FibPrefixes, nlive))
					}
					if o.Op == "drainfib" && fs.TreeNodes != 0 {
						return fail(i, "C08/fib-not-empty-after-drain", "nametree", fmt.Sprintf("%d tree nodes remain", fs.TreeNodes))
					}
				} else {
					if fs.RealEntries != fs.RealNeeded {
						return fail(i, "C08/fib-hashtable-dead-entries", "fib-direct/after-"+o.Op,
							fmt.Sprintf("real entries=%d needed=%d", fs.RealEntries, fs.RealNeeded))
					}
					if fs.VirtNames > fs.RealEntries || fs.VirtEntries > fs.VirtNames {
						return fail(i, "C08/fib-hashtable-dead-virtual", "fib-direct/after-"+o.Op,
							fmt.Sprintf("virt=%d virtNames=%d real=%d", fs.VirtEntries, fs.VirtNames, fs.RealEntries))
					}
					if o.Op == "drainfib" && (fs.RealEntries != 1 || fs.VirtEntries != 0) {
						return fail(i, "C08/fib-not-empty-after-drain", "hashtable",
							fmt.Sprintf("real=%d virt=%d remain", fs.RealEntries, fs.VirtEntries))
					}
				}
			}
		}
		wantFib, wantStrat := map[string]string{}, map[string]string{}
		live := 0
		for n, e := range model {
			if len(e.nh) > 0 {
				wantFib[n] = mapString(e.nh)
				live++
			}
			if e.strat != "" {
				wantStrat[n] = e.strat
			}
		}
		if live > maxLive {
			maxLive = live
		}
		sd := kit.NewDigest()
		for _, im := range impls {
			for _, n := range uni {
				nm := mkName(n)
				got := nhString(im.f.FindNextHopsEnc(nm))
				if want := model.lpmNH(n); got != want {
					return fail(i, "C05/nexthop-lookup-not-lpm", im.kind+"/after-"+o.Op,
						fmt.Sprintf("%s lookup %s: got [%s] want [%s]", im.kind, n, got, want))
				}
				gs := nameStr(im.f.FindStrategyEnc(nm))
				if im.f.FindStrategyEnc(nm) == nil {
					gs = ""
				}
				if want := model.lpmStrat(n); gs != want {
					return fail(i, "C05/strategy-lookup-not-lpm", im.kind+"/after-"+o.Op,
						fmt.Sprintf("%s strategy lookup %s: got %q want %q", im.kind, n, gs, want))
				}
				if im.kind == "nametree" {
					sd.S(got).S(gs)
				}
			}
			gotFib, dup := listFib(im.f)
			if dup != "" {
				return fail(i, "C05/fib-listing-wrong", im.kind+"/after-"+o.Op, dup)
			}
			if d := diffMaps(gotFib, wantFib); d != "" {
				return fail(i, "C05/fib-listing-wrong", im.kind+"/after-"+o.Op, im.kind+" "+d)
			}
			gotStrat, dup := listStrat(im.f)
			if dup != "" {
				return fail(i, "C05/strategy-listing-wrong", im.kind+"/after-"+o.Op, dup)
			}
			if d := diffMaps(gotStrat, wantStrat); d != "" {
				return fail(i, "C05/strategy-listing-wrong", im.kind+"/after-"+o.Op, im.kind+" "+d)
			}
		}
		ctx.State(sd.Sum())
		dg.U(sd.Sum())
	}
	res.NonTrivial = maxLive >= 3 && removals >= 1
	res.Digest = dg.Sum()
	if maxLive >= 3 {
		ctx.Probe("three-live-prefixes")
	}
	return res
}

// ---------------------------------------------------------------- C06 / C08 (FIB+RIB)

type route struct {
	face, origin, cost, flags uint64
}

type ribModel map[string][]route // registration order kept

func (m ribModel) expected() map[string]map[uint64]uint64 {
	out := map[string]map[uint64]uint64{}
	for p, rs := range m {
		if len(rs) == 0 {
			continue
		}
		all := append([]route(nil), rs...)
		capture := false
		for _, r := range rs {
			if r.flags&table.RouteFlagCapture != 0 {
				capture = true
			}
		}
		if !capture {
			for _, q := range prefixesOf(p)[1:] {
				if p == "/" {
					break
				}
				qs := m[q]
				if len(qs) == 0 {
					continue
				}
				stop := false
				for _, r := range qs {
					if r.flags&table.RouteFlagChildInherit != 0 {
						all = append(all, r)
					}
					if r.flags&table.RouteFlagCapture != 0 {
						stop = true
					}
				}
				if stop {
					break
				}
			}
		}
		nh := map[uint64]uint64{}
		for _, r := range all {
			if c, ok := nh[r.face]; !ok || r.cost < c {
				nh[r.face] = r.cost
			}
		}
		out[p] = nh
	}
	return out
}

func runRib(ctx *kit.Ctx, sc *kit.Scenario[Config, Op]) *kit.Result {
	res := &kit.Result{}
	table.VerifResetGlobals()
	fib := makeFib(sc.Config.Fib, sc.Config.M)
	kind := sc.Config.Fib
	// the faces of the scenario exist in the real face table, so that a teardown is the real face.Table.Remove
	// (face map, dispatch map, RIB clean-up) - also the second time round, for a face that is already gone
	face.VerifResetFaceTable()
	for id := uint64(1); id <= 8; id++ {
		ls := face.MakeNullLinkService(face.MakeNullTransport())
		face.FaceTable.Add(ls)
		if ls.FaceID() != id {
			panic(fmt.Sprintf("harness: face id %d, expected %d", ls.FaceID(), id))
		}
	}
	model := ribModel{}
	uni := universe(sc.Ops)
	dg := kit.NewDigest()
	nested, removed := false, false
	fail := func(step int, class, key, detail string) *kit.Result {
		res.Violation = &kit.Violation{Class: class, Key: key, Step: step, Detail: detail}
		return res
	}
	checkC06 := sc.Property == "C06"
	for i, o := range sc.Ops {
		switch o.Op {
		case "reg":
			table.Rib.AddEncRoute(mkName(o.Name), &table.Route{FaceID: o.Face, Origin: o.Origin, Cost: o.Cost, Flags: o.Flags})
			found := false
			for j, r := range model[o.Name] {
				if r.face == o.Face && r.origin == o.Origin {
					model[o.Name][j].cost, model[o.Name][j].flags = o.Cost, o.Flags
					found = true
					ctx.Probe("re-register")
				}
			}
			if !found {
				model[o.Name] = append(model[o.Name], route{o.Face, o.Origin, o.Cost, o.Flags})
			}
		case "unreg":
			table.Rib.RemoveRouteEnc(mkName(o.Name), o.Face, o.Origin)
			rs := model[o.Name]
			for j, r := range rs {
				if r.face == o.Face && r.origin == o.Origin {
					model[o.Name] = append(append([]route(nil), rs[:j]...), rs[j+1:]...)
					removed = true
					break
				}
			}
		case "cleanup":
			// what face.Table.Remove does on teardown of a face
			ctx.Fault("face-teardown")
			if face.FaceTable.Get(o.Face) == nil {
				ctx.Probe("teardown-of-a-face-already-removed")
			}
			face.FaceTable.Remove(o.Face)
			for p, rs := range model {
				var keep []route
				for _, r := range rs {
					if r.face != o.Face {
						keep = append(keep, r)
					} else {
						removed = true
					}
				}
				model[p] = keep
			}
		case "drain":
			// C08: remove everything that is registered, through the public API
			ps := make([]string, 0, len(model))
			for p := range model {
				ps = append(ps, p)
			}
			sort.Strings(ps)
			for _, p := range ps {
				for _, r := range model[p] {
					table.Rib.RemoveRouteEnc(mkName(p), r.face, r.origin)
				}
				delete(model, p)
			}
		}
		res.Steps++
		exp := model.expected()
		live := 0
		for p := range exp {
			live++
			for q := range exp {
				if p != q && strings.HasPrefix(q, strings.TrimSuffix(p, "/")+"/") {
					nested = true
				}
			}
		}
		sd := kit.NewDigest()
		if checkC06 {
			want := map[string]string{}
			for p, nh := range exp {
				want[p] = mapString(nh)
			}
			got, dup := listFib(fib)
			if dup != "" {
				return fail(i, "C06/fib-not-flattening", kind+"/duplicate-entry", dup)
			}
			if d := diffMaps(got, want); d != "" {
				return fail(i, "C06/fib-not-flattening", c06Key(kind, o, got, want, model), d)
			}
			for _, n := range uni {
				wantNH := ""
				for _, p := range prefixesOf(n) {
					if nh, ok := exp[p]; ok {
						wantNH = mapString(nh)
						break
					}
				}
				gotNH := nhString(fib.FindNextHopsEnc(mkName(n)))
				if gotNH != wantNH {
					return fail(i, "C06/lookup-not-flattening", kind+"/after-"+o.Op,
						fmt.Sprintf("lookup %s: got [%s] want [%s]", n, gotNH, wantNH))
				}
				sd.S(gotNH)
			}
		} else {
			// C08 structural part: nothing beyond what live entries require
			fs := table.VerifFibStatsOf(fib)
			rn, rneed := table.VerifRibStats()
			if rn != rneed {
				return fail(i, "C08/rib-tree-dead-nodes", "after-"+o.Op, fmt.Sprintf("rib nodes=%d needed=%d", rn, rneed))
			}
			if kind == "nametree" {
				if fs.TreeNodes != fs.NeededNodes {
					return fail(i, "C08/fib-tree-dead-nodes", "after-"+o.Op,
						fmt.Sprintf("fib tree nodes=%d needed=%d", fs.TreeNodes, fs.NeededNodes))
				}
				nlive := len(fib.GetAllFIBEntries())
				if fs.FibPrefixes > nlive {
					return fail(i, "C08/fib-prefix-index-stale", "after-"+o.Op,
						fmt.Sprintf("fibPrefixes=%d live FIB entries=%d", fs.FibPrefixes, nlive))
				}
			} else {
				if fs.RealEntries != fs.RealNeeded {
					return fail(i, "C08/fib-hashtable-dead-entries", "after-"+o.Op,
						fmt.Sprintf("real entries=%d needed=%d", fs.RealEntries, fs.RealNeeded))
				}
				// each real entry deeper than or at m is indexed exactly once
				if fs.VirtNames > fs.RealEntries || fs.VirtEntries > fs.VirtNames {
					return fail(i, "C08/fib-hashtable-dead-virtual", "after-"+o.Op,
						fmt.Sprintf("virt=%d virtNames=%d real=%d", fs.VirtEntries, fs.VirtNames, fs.RealEntries))
				}
			}
			if o.Op == "drain" {
				if n := len(fib.GetAllFIBEntries()); n != 0 {
					return fail(i, "C08/fib-not-empty-after-drain", kind, fmt.Sprintf("%d FIB entries remain", n))
				}
				if n := len(table.Rib.GetAllEntries()); n != 0 {
					return fail(i, "C08/rib-not-empty-after-drain", kind, fmt.Sprintf("%d RIB entries remain", n))
				}
			}
			sd.I(fs.TreeNodes).I(fs.RealEntries).I(rn).I(live)
		}
		ctx.State(sd.Sum())
		dg.U(sd.Sum())
	}
	res.NonTrivial = nested && removed
	res.Digest = dg.Sum()
	return res
}

// c06Key names the shape of a flattening mismatch so that distinct defects get
// distinct keys: which kind of prefix is wrong and in which direction.
func c06Key(kind string, o Op, got, want map[string]string, model ribModel) string {
	keys := map[string]bool{}
	for k := range got {
		keys[k] = true
	}
	for k := range want {
		keys[k] = true
	}
	ks := make([]string, 0, len(keys))
	for k := range keys {
		ks = append(ks, k)
	}
	sort.Strings(ks)
	for _, k := range ks {
		g, gok := got[k]
		w, wok := want[k]
		if gok == wok && g == w {
			continue
		}
		where := "prefix-with-routes"
		if len(model[k]) == 0 {
			where = "prefix-without-routes"
			if k == "/" {
				where = "root-without-routes"
			}
		}
		dir := "wrong-set"
		if gok && !wok {
			dir = "spurious-entry"
		} else if !gok && wok {
			dir = "missing-entry"
		} else {
			gs, ws := strings.Split(g, ","), strings.Split(w, ",")
			if len(gs) > len(ws) {
				dir = "extra-nexthop"
			} else if len(gs) < len(ws) {
				dir = "missing-nexthop"
			} else {
				dir = "wrong-cost-or-face"
			}
		}
		return kind + "/" + o.Op + "/" + where + "/" + dir
	}
	return kind + "/" + o.Op
}
