"""Per-property check plan: engines (parts), run counts per tier, evidence texts."""

REAL_TABLES = ["fw/table FibStrategyTree", "fw/table FibStrategyHashTable", "fw/table RibTable (RIB -> FIB flattening)", "std/encoding names"]

PLAN = {
    "C05": {
        "parts": [{"engine": "tablesim", "quick": 60000, "thorough": 6000000}],
        "nontrivial": ">=3 prefixes held next hops at some point and >=1 next-hop removal/clear took effect",
        "fault_note": "no clock, I/O or concurrency is involved in this property; the simulator contributes history generation, the reference model, shrinking and replay only, so no fault kind applies",
        "components": {"real": ["fw/table FibStrategyTree", "fw/table FibStrategyHashTable (m in 1..6)", "std/encoding names/hashes"], "stub": []},
        "assumptions": ["64-bit name hashes do not collide on the generated universe",
                        "names are drawn from a 3-letter alphabet, depth 0..6 (plus /zz probes); faces 1..5; costs 0..3 and 2^64-1"],
    },
    "C06": {
        "parts": [{"engine": "tablesim", "quick": 50000, "thorough": 5000000}],
        "nontrivial": ">=2 nested prefixes held routes at some step and >=1 unregistration or face teardown removed a route",
        "fault_note": "fault kind = face teardown (RIB clean-up as face.Table.Remove performs it) injected at arbitrary points of the registration history",
        "components": {"real": REAL_TABLES, "stub": ["face table (teardown is represented by the RIB clean-up call it makes)"]},
        "assumptions": ["routes are identified by (prefix, face, origin) as in the management protocol", "expiration periods are not simulated (the forwarder does not act on them)"],
    },
    "C08": {
        "parts": [{"engine": "tablesim", "quick": 30000, "thorough": 3000000}],
        "nontrivial": "(table part) >=2 nested prefixes held routes and >=1 removal/teardown happened before the drain",
        "fault_note": "fault kind = face teardown injected into the registration history",
        "components": {"real": REAL_TABLES, "stub": []},
        "assumptions": [],
    },
}
