"""Per-property check plan: engines (parts), run counts per tier, evidence texts."""

REAL_TABLES = ["fw/table FibStrategyTree", "fw/table FibStrategyHashTable", "fw/table RibTable (RIB -> FIB flattening)", "std/encoding names"]

FW_COMPONENTS = {"real": ["fw/fw Thread.Run loop and pipelines", "fw/fw best-route and multicast strategies", "fw/table PitCsTree + CsLRU + DeadNonceList (own timers on the bubble clock)", "fw/table FIB (nametree or hashtable)", "fw/table NetworkRegion", "std/ndn/spec_2022 packet codec"], "stub": ["faces (recording dispatch.Face with scope/link type)", "peers (scripted by the scenario)", "link service (packets enter at the forwarding-thread queue)"]}
PLAN_FW_FAULTS = "network faults are scripted by the scenario: lost Data (Interest expires), duplicated Data, Interests re-entering on another face with the same nonce (loop), tokens echoed on the wrong face or foreign; endpoint fault: face teardown; clock: zero advances, exact-deadline landings, jumps past every lifetime"
FW_ASSUMPTIONS = ["one forwarding thread under test (thread 0, or - in 30% of the runs - thread 1..7 of several, the others idle); multi-thread dispatch is exercised by facesim/mgmtsim", "64-bit name hashes and 32-bit PIT tokens do not collide within a run"]

PLAN = {
    "C05": {
        "parts": [{"engine": "tablesim", "quick": 40000, "thorough": 3000000, "quick_wall": 120}],
        "nontrivial": ">=3 prefixes held next hops at some point and >=1 next-hop removal/clear took effect",
        "fault_note": "no clock, I/O or concurrency is involved in this property; the simulator contributes history generation, the reference model, shrinking and replay only, so no fault kind applies",
        "components": {"real": ["fw/table FibStrategyTree", "fw/table FibStrategyHashTable (m in 1..6)", "std/encoding names/hashes"], "stub": []},
        "assumptions": ["64-bit name hashes do not collide on the generated universe",
                        "names are drawn from a 3-letter alphabet, depth 0..6 (plus /zz probes, and 4% look-alikes: two neighbouring components of a name in use merged into one component that spells out the boundary); faces 1..5; costs 0..3 and 2^64-1"],
    },
    "C06": {
        "parts": [{"engine": "tablesim", "quick": 100000, "thorough": 6000000}, {"engine": "mgmtsim", "quick": 8000, "thorough": 400000, "quick_wall": 45}],
        "nontrivial": "(table part) >=2 nested prefixes held routes at some step and >=1 unregistration or face teardown removed a route; (management part) >=1 command accepted and >=1 refused",
        "fault_note": "fault kind = face teardown (RIB clean-up as face.Table.Remove performs it) injected at arbitrary points of the registration history; management part: the same histories issued as rib/register, rib/unregister and faces/destroy commands to the running management thread of a whole forwarder",
        "components": {"real": REAL_TABLES + ["(management part) fw/mgmt management thread and RIB module, internal face, forwarding threads, real face table"], "stub": ["(table part) face table (teardown is represented by the RIB clean-up call it makes)", "(management part) application faces (simulated transports)"]},
        "assumptions": ["routes are identified by (prefix, face, origin) as in the management protocol", "expiration periods are stored and listed but the forwarder does not act on them"],
    },
    "C08": {
        "parts": [{"engine": "fwsim", "quick": 40000, "thorough": 3000000}, {"engine": "tablesim", "quick": 30000, "thorough": 3000000}],
        "nontrivial": "(forwarder part) >=1 PIT entry expired unsatisfied and >=1 was satisfied by Data before the drain phase; (table part) >=2 nested prefixes held routes and >=1 removal/teardown happened before the drain",
        "fault_note": PLAN_FW_FAULTS + "; then faults and traffic stop and the clock runs past every lifetime (bounded-liveness drain). Table part: face teardown injected into the registration history",
        "components": {"real": FW_COMPONENTS["real"] + REAL_TABLES, "stub": FW_COMPONENTS["stub"]},
        "assumptions": FW_ASSUMPTIONS,
    },
    "C09": {
        "parts": [{"engine": "fwsim", "quick": 80000, "thorough": 4000000}],
        "nontrivial": ">=1 /localhost packet was offered while a non-local face existed",
        "fault_note": "network faults are scripted by the scenario: lost Data (Interest expires), duplicated Data, Interests re-entering on another face with the same nonce (loop), tokens echoed on the wrong face; endpoint fault: face teardown",
        "components": {"real": ["fw/fw Thread.Run loop and pipelines", "fw/fw best-route and multicast strategies", "fw/table PitCsTree + CsLRU + DeadNonceList (own timers on the bubble clock)", "fw/table FIB (nametree or hashtable)", "fw/table NetworkRegion", "std/ndn/spec_2022 packet codec", "fw/face MakeUnicastTCPTransport: scope classification of outgoing TCP faces from the remote address (40% of point-to-point faces take their forwarder-side scope from it)"], "stub": ["faces (recording dispatch.Face with link type; scope given by the scenario, or by the real TCP transport constructor)", "scope classification of accepted TCP, UDP, Unix and WebSocket transports (their constructors need real sockets)", "peers (scripted by the scenario)", "link service (packets enter at the forwarding-thread queue)"]},
        "assumptions": ["one forwarding thread under test (thread 0, or - in 30% of the runs - thread 1..7 of several, the others idle); multi-thread dispatch is exercised by facesim/mgmtsim", "which peers count as non-local: everything but loopback addresses (127.0.0.0/8, ::1)"],
    },
    "C01": {
        "parts": [{"engine": "fwsim", "quick": 100000, "thorough": 5000000}],
        "nontrivial": ">=1 arriving Data was delivered to >=1 pending downstream",
        "fault_note": PLAN_FW_FAULTS,
        "components": FW_COMPONENTS,
        "assumptions": FW_ASSUMPTIONS,
    },
    "C02": {
        "parts": [{"engine": "fwsim", "quick": 100000, "thorough": 5000000}],
        "nontrivial": ">=1 Interest was forwarded and >=1 was dropped/aggregated for a stated reason (hop limit 0, no nonce, loop, dead nonce, suppression, unknown face, scope)",
        "fault_note": PLAN_FW_FAULTS,
        "components": FW_COMPONENTS,
        "assumptions": FW_ASSUMPTIONS,
    },
    "C07": {
        "parts": [{"engine": "fwsim", "quick": 100000, "thorough": 5000000}, {"engine": "cssim", "quick": 40000, "thorough": 3000000, "quick_wall": 60}],
        "nontrivial": "(forwarder part) >=1 eviction happened and >=1 MustBeFresh lookup met a stale cached packet; (table part) >=1 eviction and (>=1 stale packet withheld from a MustBeFresh lookup or >=1 prefix lookup answered with a longer name)",
        "fault_note": PLAN_FW_FAULTS + "; clock: freshness periods cross their boundary through scenario-chosen advances (0, +-1 ms around periods). Table part: the same histories issued directly at the Content Store's table interface (insertions, refreshes, exact/prefix lookups, capacity changes, pending Interests that add name-tree nodes) on the simulated clock",
        "components": {"real": FW_COMPONENTS["real"] + ["(table part) fw/table PitCsTree Content Store + CsLRU, called directly"], "stub": FW_COMPONENTS["stub"]},
        "assumptions": FW_ASSUMPTIONS + ["'hit by an exact-name lookup' is read as a lookup without CanBePrefix"],
    },
}
PLAN["C20"] = {
    "parts": [{"engine": "enginesim", "quick": 500000, "thorough": 30000000}],
    "nontrivial": ">=2 Interests were pending simultaneously and >=2 kinds of result (Data, Nack, timeout) occurred",
    "fault_note": "the scenario decides every interleaving of Express, Data/Nack arrival, 'fire the k-th due timer' and clock advance (on the dummy and production timers every due timer fires on each advance); network faults = Data that never comes (timeout), late Data after the deadline, duplicated Data, Nacks for names with and without a pending Interest; the face recycles its receive buffer after each callback; 7% of the Interests are expressed from a callback of the engine's timer",
    "components": {"real": ["std/engine/basic Engine (Express, onPacket, onData, onNack, timeout closures, handlers, Reply)", "std/engine/basic NameTrie", "std/ndn/spec_2022 codec", "std/engine/dummy Timer and DummyFace (30% of runs: the engine runs on the repository's own virtual-clock timer and dummy face)", "std/engine/basic Timer (2% of runs: production timer on a synctest bubble clock, timeouts on timer goroutines)"], "stub": ["face (SimFace implementing std/engine/face.Face; 70% of runs)", "timer (SimTimer implementing ndn.Timer: event heap, scenario-chosen firing order; 67% of runs; 30% of those scenarios contain race steps: 2-3 engine calls as concurrent tasks under a cooperative scheduler)"]},
    "assumptions": ["Express is not called re-entrantly from inside a result callback (the engine holds its PIT lock there)", "a Nack is allowed, not required, to resolve the Interests of its name"],
}
PLAN["C11"] = {
    "parts": [{"engine": "streamsim", "quick": 20000, "thorough": 600000, "quick_wall": 80}],
    "nontrivial": "the stream wrapped the 32-packet receive buffer at least once and >=1 read ended inside a type or length field (readTlvStream), or >3 blocks went through StreamFace.Run over a pipe",
    "fault_note": "stream I/O faults: arbitrary chunking incl. 1-byte reads and reads ending inside T/L, reads that exactly fill the buffer, transient read errors (with and without data), EOF at an arbitrary byte",
    "components": {"real": ["fw/face readTlvStream (the loop behind TCP and Unix stream transports)", "std/engine/face StreamFace.Run (over net.Pipe in a synctest bubble)", "std/encoding ReadTLNum", "fw/face readTlvDatagrams (the loop behind the UDP transports; 2% of runs on a scripted datagram socket: whole blocks grouped into datagrams, transient errors)", "5% of runs: the receive loops of the real TCP (accepted and outgoing-permanent), Unix-stream and unicast UDP transports over loopback sockets"], "stub": ["socket (scripted io.Reader / net.Pipe; real loopback sockets in 5% of runs)", "link service above the framing (frames are copied inside the callback, as handleIncomingFrame does)"]},
    "assumptions": ["TLV lengths use the shortest encoding (NDN packet format) except in 5% of the fw/std runs, where some are written in 3- and 5-byte forms: there a refusal of the stream is accepted, altered frames are not; 5-byte VAR-NUMBER forms are exercised in the type field", "EOF is delivered as a separate (0, EOF) read, as net.Conn does, or (15% of the fw runs) together with the last bytes"],
}
PLAN["C10"] = {
    "parts": [{"engine": "linksim", "quick": 300000, "thorough": 20000000}],
    "nontrivial": "a message needed >=2 fragments, or its single-frame encoding landed within 2 bytes of the MTU",
    "fault_note": "link schedule = permutation/interleaving of the frames of up to three concurrent messages (clean population: exactly-once and byte identity are demanded); 3% of the runs on a long-lived face (4200+ fragments sent and reassembled beforehand); separate populations with frame loss (never a partial or altered delivery) and frame duplication (every delivered copy byte-identical)",
    "components": {"real": ["fw/face NDNLPLinkService send path (sendPacket: MTU budgeting, fragmentation, LP encoding)", "fw/face NDNLPLinkService receive path (handleIncomingFrame, reassemblePacket, dispatch)", "std/ndn/spec_2022 LpPacket codec"], "stub": ["transport (SimTransport: frames handed to the scenario's link schedule)", "forwarding threads behind the receiver (recording dispatch.FWThread)"]},
    "assumptions": ["PIT tokens are at most 32 bytes (NDNLPv2)", "the receiver is a non-local face (local faces fan Data out to several threads by design)"],
}
PLAN["C04"] = {
    "parts": [{"engine": "rxsim", "quick": 6000, "thorough": 600000}, {"engine": "dvsim", "quick": 1200, "thorough": 60000, "quick_wall": 45}, {"engine": "objsim", "quick": 1500, "thorough": 80000, "quick_wall": 45}, {"engine": "svsim", "quick": 3000, "thorough": 150000, "quick_wall": 45}, {"engine": "mgmtsim", "quick": 4000, "thorough": 200000, "quick_wall": 45}, {"engine": "streamsim", "quick": 6000, "thorough": 300000, "quick_wall": 30}],
    "nontrivial": "rxsim: >=1 corrupted frame was put on the link and >=1 frame of the run decoded past its outer type-length; dvsim: >=1 corrupted routing packet (sync Interest, advertisement Interest/Data, prefix Interest/Data) reached a router; objsim: >=1 corrupted metadata/segment Interest or Data reached the producer or the consumer; svsim: >=1 corrupted Sync Interest reached a node; mgmtsim: >=1 command with corrupted ControlParameters reached the management thread; streamsim: >3 blocks travelled in well-formed datagrams around >=1 undecodable datagram",
    "fault_note": "link corruption fault over valid traffic (bare and LP-wrapped Interests/Data, Nacks, idle frames, real fragments): every TLV length replaced by boundary/huge values (with and without patching the enclosing lengths), truncation, bit flips, type confusion, inserted bytes, fragment index/count/sequence rewrites, PIT tokens naming thread count-1/count/65535, random frames; optionally delivered through the stream framing loop under arbitrary chunking; datagram faces: undecodable datagrams slipped in between well-formed ones - every block of a well-formed datagram must still be delivered, unaltered and once, and the receive loop must go on",
    "components": {"real": ["fw/face readTlvStream", "fw/face NDNLPLinkService.handleIncomingFrame + reassembly + dispatchInterest/dispatchData", "fw/dispatch GetFWThread", "fw/fw Thread.Run (1..32 threads) with PIT/CS/FIB behind it", "std/engine/basic Engine.onPacket (same frames, contiguous and 2-/3-segment readers)", "std/ndn/spec_2022 decoders (Interest, Data, LpPacket)", "std/encoding readers", "dvsim part: dv/dv Router receive handlers, dv/tlv decoders (Advertisement, PrefixOpList, sync state vector), std/engine/basic Engine per router - routing traffic corrupted in transit", "objsim part: std/object consumer and producer clients, segment fetcher, std/ndn/rdr_2024 metadata decoder - object traffic corrupted in transit", "svsim part: std/sync SvSync (2-4 instances: main loop, suppression, periodic timer on the bubble clock), std/ndn/svs_2024 state-vector decoder, std/engine/basic Engine per node - Sync Interests corrupted in transit", "mgmtsim part: the whole forwarder (management thread and modules, mgmt_2022 ControlParameters decoder, internal face, forwarding threads) - command parameters corrupted in transit", "streamsim part: fw/face readTlvDatagrams, the receive loop of the unicast and multicast UDP transports, over a scripted datagram socket (96%) and the real UnicastUDPTransport over a loopback socket (4%) - undecodable datagrams (block cut short, length beyond the maximum packet size, unfinished header, empty) between well-formed ones"], "stub": ["transport (SimTransport)", "upstream face (sink)", "dvsim part: the forwarders between daemons (hub), SvSync dissemination", "objsim part: faces, network", "svsim part: faces, multicast link", "mgmtsim part: transports of application faces", "streamsim part: the datagram socket (scripted, except in the loopback runs), the link service above the framing (recorder)"]},
    "assumptions": ["decided for the forwarder's and the application engine's receive paths and the decoders they reach; dv/tlv decoders are reached by this check's dvsim part (routing packets corrupted in transit, including the TLVs nested in Data content), mgmt_2022 ControlParameters by this check's mgmtsim part, rdr_2024 and the object clients by this check's objsim part; svs_2024 by this check's svsim part; ndncert_0_3, schema/demosec and the generator's test models are not reached by any simulated component and are NOT decided (see DESIGN.md 6.C04)",
                    "allocation bound per frame: 1 MiB + 64 x frame length (forwarder), 4x that for the engine's three passes"],
    "level_text": "Seeded search over corrupted traffic delivered to the real receive paths in a deterministic simulation; invariants per frame: no panic, bounded allocation, bounded steps, no state change on undecodable frames. Samples the byte-sequence space through structure-aware mutation; not a proof, and scoped to decoders a simulated component reaches.",
}
PLAN["C17"] = {
    "parts": [{"engine": "mgmtsim", "quick": 20000, "thorough": 1000000}],
    "nontrivial": ">=1 state-changing command was accepted and >=1 command was refused or unauthorised",
    "fault_note": "management faults: ControlParameters missing, truncated or with disagreeing lengths (corruption), unknown modules/verbs, commands under foreign prefixes, from non-local faces, with a consumer-chosen next hop aimed at the internal face; endpoint fault: face destroyed in mid-history (later commands name it, routes through it are cleaned up)",
    "components": {"real": ["fw/mgmt Thread.Run and all six modules", "fw/face internal transport + its NDNLP link service", "fw/face NDNLP link services of the application faces (send/receive goroutines)", "fw/fw Thread.Run (1-2 threads), PIT/CS", "fw/table FIB (nametree/hashtable), RIB, strategy table", "fw/face FaceTable", "std/ndn/mgmt_2022 codecs"], "stub": ["transports of application faces (SimTransport)", "faces/create is exercised only on URIs that must be refused (a successful create dials real sockets)"]},
    "assumptions": ["RIB commands use the /r name space and FIB commands the /f name space (the RIB rewrites the FIB entry of a prefix it manages)", "an MTU below 64 bytes cannot carry a packet and must be refused; 64..127 is left open; >=128 must be accepted", "a requester never destroys its own face or the internal face", "NLSR readvertisement is off"],
}
PLAN["C16"] = {
    "parts": [{"engine": "schedsim", "quick": 30000, "thorough": 2500000, "quick_wall": 150}],
    "nontrivial": ">=1 task was parked inside a RIB mutator while another task ran, or the scenario's release order decided more than 4 scheduling points",
    "fault_note": "schedule fault = which parked task is released at each yield point (before every FIB/RIB lock acquisition, inside every critical section - where the hook also probes that the lock the section needs is really held, and on arrival at a lock whether it is already held: re-entrancy - between the steps of face removal, between a lookup's return and the use of its result); endpoint fault = face teardown racing with registrations and lookups",
    "components": {"real": ["fw/table RibTable (AddEncRoute, RemoveRouteEnc, CleanUpFace)", "fw/table FibStrategyTree / FibStrategyHashTable incl. their RWMutex", "fw/face Table.Remove", "fw/dispatch face map", "fw/fw Thread.processIncomingInterest / processIncomingData (called synchronously by fwd operations; /localhost names in a third of them)"], "stub": ["the threads themselves: management thread, face send goroutines and forwarding threads are represented by simulated tasks that issue the same table calls (a fifth of the lookup operations run the whole incoming-Interest and incoming-Data pipeline of a real fw.Thread on the task instead)"]},
    "assumptions": ["memory races between two yield points that change no observable result are not visible to a one-at-a-time scheduler (the Go race detector cannot be combined with it)", "porcupine verdict Unknown (time-out) is counted, never reported"],
    "technique": "deterministic simulation: cooperative seeded scheduler over real goroutines parked at lock/yield hooks, recorded history checked for linearizability with porcupine against a sequential reference model",
}
PLAN["C15"] = {
    "parts": [{"engine": "objsim", "quick": 8000, "thorough": 400000, "quick_wall": 120}],
    "nontrivial": "the fetched object had >=2 segments and >=1 segment Data arrived out of order or only after a retransmission",
    "fault_note": "network faults between consumer and producer: Interest/Data drop (within and beyond the 3-retry budget), delay (incl. beyond the Interest lifetime), duplication; reordering arises from delays; versions published in arbitrary order; name slices with spare capacity; both stores; process faults: the producer restarts (graceful close, or crash = the on-disk store file as it is at that instant is what the next incarnation opens; the in-memory store is lost) before or during a fetch; store transactions (begin/commit/rollback) with removals issued while a transaction is open",
    "components": {"real": ["std/object Client (run loop goroutine, Produce, Consume, round-robin segment fetcher, ExpressR retry)", "std/object MemoryStore and BoltStore (real bbolt file under TMPDIR, removed after the run)", "std/engine/basic Engine x2 with its real Timer on the bubble clock", "std/ndn/rdr_2024 metadata codec"], "stub": ["faces (SimFace)", "the network/forwarder between the two engines (scripted hub)"]},
    "assumptions": ["a transmission dropped, or delayed to within 10% of the Interest lifetime, costs its name one of four attempts; a fetch may fail only if some name lost four", "faces do not recycle receive buffers (none in the repository does)", "the store interface's Get(prefix) is specified as 'newest Data wire with the given prefix'; names that are both a packet and a prefix of packets are not generated"],
}
DV_COMPONENTS = {"real": ["dv/dv Router (update rule with poison reverse, advertisement generation, sync-Interest handling, advert fetch/retry, dead-neighbour handling, FIB differ, prefix fetch/apply, readvertise handler)", "dv/table Rib, NeighborTable, Fib, PrefixTable", "dv/nfdc management client thread with its retry loop", "std/engine/basic Engine per router with its real Timer on the bubble clock", "dv/tlv and mgmt_2022 codecs"], "stub": ["the forwarders between the daemons: one simulated hub that answers management commands as NFD would, carries one-hop sync Interests with incoming-face indication, routes advertisement/prefix-data Interests to the named router and Data back", "std/sync SvSync is constructed but not started (unseedable jitter): new prefix-log sequence numbers are notified by the hub", "heartbeat and dead-check tickers: their firings are scenario events"]}
PLAN["C18"] = {
    "parts": [{"engine": "dvsim", "quick": 5000, "thorough": 500000, "quick_wall": 150}],
    "nontrivial": ">=3 routers and the settle phase needed >=2 rounds in which tables still changed",
    "fault_note": "arbitrary delivery order of sync Interests, advertisement fetches and replies; loss (fetch retries), duplication, delay; link removal and re-addition; router crash and restart (volatile state lost); dead-check ticks; transient send errors (a router's socket refuses its next 1-4 routing packets); the daemon's update goroutines held back and released in a scenario-chosen order; then faults stop and bounded-time convergence is demanded",
    "components": DV_COMPONENTS,
    "assumptions": ["links are symmetric and unit cost (the daemon has no other metric)", "after faults stop the hub delivers everything and keeps ticking; convergence must be reached within 400 heartbeat rounds / 50000 deliveries (worst case count-to-infinity is about n^2*16*degree deliveries)"],
}
PLAN["C19"] = {
    "parts": [{"engine": "dvsim", "quick": 5000, "thorough": 500000, "quick_wall": 150}],
    "nontrivial": ">=1 announced prefix was installed as a route and the announced set changed during the run",
    "fault_note": "as C18 plus prefix announce/withdraw through the real readvertise handler (incl. bursts that open a log gap > 100 and force a snapshot), multi-homed prefixes, neighbour face-id changes, late joiners, loss/duplication of prefix-sync notifications and prefix-data fetches, management commands failing within the client's retry budget",
    "components": DV_COMPONENTS,
    "assumptions": ["management commands fail at most twice in a row (the client retries three times; beyond that the daemon gives up by design)", "the comparison is made whenever the daemon's management queue is empty"],
}

NOT_APPLICABLE = [
    {"property_id": "C03", "reason": "encode->decode round trip is a pure function of the packet value and a byte segmentation: no schedule, clock, fault or shared state for a simulator to own"},
    {"property_id": "C12", "reason": "sign/verify/tamper detection is a pure function of (signer, packet bytes, bit position): no time, I/O or interleaving"},
    {"property_id": "C13", "reason": "generated-model round trip and generator-output equality are pure functions of values and definition files: no dynamic behaviour"},
    {"property_id": "C14", "reason": "order/equality/hash/URI laws of names are algebraic properties of pure functions"},
]

ENGINES = [
    {"name": "dvsim", "path": "sim/dvsim", "serves_properties": ["C18", "C19"], "kind_free_text": "N real routing daemons on real engines in one synctest bubble over a simulated hub (scenario-chosen delivery order, loss, duplication, link/router failures); reference route table replayed from the command stream"},
    {"name": "svsim", "path": "sim/svsim", "serves_properties": ["C04"], "kind_free_text": "2-4 real State Vector Sync instances on real engines in one synctest bubble, joined by a multicast link that drops, duplicates and corrupts Sync Interests"},
    {"name": "objsim", "path": "sim/objsim", "serves_properties": ["C15"], "kind_free_text": "real object producer and consumer clients on real engines in one synctest bubble, joined by a scripted lossy/reordering network; differential store histories"},
    {"name": "schedsim", "path": "sim/schedsim", "serves_properties": ["C16"], "kind_free_text": "cooperative seeded scheduler releasing real goroutines one at a time at table-lock yield hooks; porcupine linearizability check"},
    {"name": "mgmtsim", "path": "sim/mgmtsim", "serves_properties": ["C17", "C06", "C04"], "kind_free_text": "whole forwarder (management thread, internal face, forwarding threads, link services) in one synctest bubble; command histories against a command-level reference model"},
    {"name": "rxsim", "path": "sim/facesim/rx.go", "serves_properties": ["C04"], "kind_free_text": "hostile link (structure-aware corruption) in front of the real forwarder receive path (link service, reassembly, dispatch, forwarding threads) and the application engine"},
    {"name": "linksim", "path": "sim/facesim/link.go", "serves_properties": ["C10"], "kind_free_text": "two real link services joined by a simulated datagram link that permutes, drops and duplicates frames"},
    {"name": "streamsim", "path": "sim/facesim/stream.go", "serves_properties": ["C11", "C04"], "kind_free_text": "scripted stream socket (chunking, transient errors, EOF) and scripted datagram socket (grouping, undecodable datagrams) under the real framing loops"},
    {"name": "enginesim", "path": "sim/enginesim", "serves_properties": ["C20"], "kind_free_text": "real application engine on a simulated face and timer (event heap; scenario-chosen interleaving of arrivals and timer firings), on the repository's dummy timer/face, or on its production timer inside a synctest bubble"},
    {"name": "cssim", "path": "sim/cssim", "serves_properties": ["C07"], "kind_free_text": "one Content Store driven through its table interface in a synctest bubble (fake clock) against a reference LRU cache"},
    {"name": "tablesim", "path": "sim/tablesim", "serves_properties": ["C05", "C06", "C08"], "kind_free_text": "operation histories (with face teardown injected) against the real FIBs and RIB; reference models; shrinking; replay"},
    {"name": "fwsim", "path": "sim/fwsim", "serves_properties": ["C01", "C02", "C07", "C08", "C09"], "kind_free_text": "one real forwarding thread in a synctest bubble (fake clock, quiescence stepping), simulated faces and scripted peers, reference PIT/CS/FIB model"},
]
