#!/usr/bin/env python3
"""Regenerates the table of DESIGN.md section 11 from seeded/*/meta.json (between the seeded-table markers)."""
import json, glob, os, re
rows = []
for f in sorted(glob.glob('/verif/seeded/*/meta.json')):
    d = json.load(open(f)); dd = os.path.dirname(f)
    title = ''
    n = os.path.join(dd, 'notes.md')
    if os.path.exists(n):
        for l in open(n):
            if l.startswith('#'):
                title = re.sub(r'^#+\s*', '', l.strip())
                title = re.sub(r'^(?:C\d\d\s*/?\s*)?m\d\s*(?:\([^)]*\)\s*)?[-—–:]\s*', '', title)
                break
    if not title:
        title = d['needs_to_manifest'][:100]
    cls = d['check_class']; v = d['check_verdict']
    first = 'reported'
    if 'MISSED' in cls or 'strengthening' in v:
        first = 'missed; reported after strengthening'
    if 'harness-repair' in v:
        first = 'harness error; reported after harness repair'
    if v == 'neutralised-by-fix':
        first = 'reported when kept; since neutralised by the repair of the defect it relied on'
    if v == 'missed':
        first = 'NOT reported (outside the simulated components, see below)'
        cls = 'none'
    cls = re.split(r' - MISSED| \(', cls)[0]
    rows.append((d['id'], title.replace('|', '/'), cls.replace('|', '/'), first))
out = ["| id | change | reported as | first evaluation |", "|---|---|---|---|"]
for r in rows:
    out.append("| %s | %s | `%s` | %s |" % r)
n_miss = sum(1 for r in rows if r[3].startswith('missed'))
n_never = sum(1 for r in rows if r[3].startswith('NOT'))
n_harn = sum(1 for r in rows if r[3].startswith('harness'))
out.append("")
out.append("%d kept; at first evaluation %d were reported by the quick tier, %d were missed and later reported after strengthening, %d ended in a harness error and are reported now, %d are not reported and cannot be with the simulated components; %d are reported now (`tools/reverify_seeded.sh`)." %
           (len(rows), len(rows) - n_miss - n_harn - n_never, n_miss, n_harn, n_never, len(rows) - n_never))
p = '/verif/DESIGN.md'
s = open(p).read()
a = s.index('<!-- seeded-table:begin -->') + len('<!-- seeded-table:begin -->')
b = s.index('<!-- seeded-table:end -->')
open(p, 'w').write(s[:a] + "\n" + "\n".join(out) + "\n" + s[b:])
print(len(rows), "rows;", n_miss, "missed;", n_harn, "harness errors")
