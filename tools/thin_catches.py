#!/usr/bin/env python3
"""thin_catches.py <reverify log>: the seeded changes whose catch took more than half of the quick budget or produced at most 4 reports."""
import re, sys, importlib.util
spec = importlib.util.spec_from_file_location('plan', '/verif/plan.py'); m = importlib.util.module_from_spec(spec); spec.loader.exec_module(m)
tot = {p: sum(x['quick'] for x in v['parts']) for p, v in m.PLAN.items()}
for l in open(sys.argv[1]):
    mm = re.match(r'(\S+) (C\d\d) caught (.*)\(after (\d+) runs, (\d+) reports\)', l)
    if mm:
        id, p, cls, runs, reps = mm.group(1), mm.group(2), mm.group(3), int(mm.group(4)), int(mm.group(5))
        if reps <= 4 or runs > 0.5 * tot[p]:
            print("%-12s %s %6d / %6d runs, %2d reports  %s" % (id, p, runs, tot[p], reps, cls.strip()))
