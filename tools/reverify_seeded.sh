#!/bin/bash
# reverify_seeded.sh [ids...] : apply every kept seeded change to $VERIF_REPO (default /repo), run the property's quick
# check, undo, and print one line per change. Exit 1 if any change is not reported as a violation.
# Never run this concurrently with other checks against the same repository copy.
cd "$(dirname "$0")/.."
REPO=${VERIF_REPO:-/repo}
ids=("$@"); [ ${#ids[@]} -eq 0 ] && ids=($(ls seeded))
bad=0
for id in "${ids[@]}"; do
  d=seeded/$id; prop=$(python3 -c "import json;print(json.load(open('$d/meta.json'))['property'])")
  verdict=$(python3 -c "import json;print(json.load(open('$d/meta.json'))['check_verdict'])")
  if [ "$verdict" = "neutralised-by-fix" ]; then echo "$id $prop skipped (a later fix: commit removed the defect this change relied on; see meta.json)"; continue; fi
  P=$d/patch.diff; [ -f $d/patch.rebased.diff ] && P=$d/patch.rebased.diff
  if [ -n "$(git -C $REPO status --porcelain)" ]; then echo "$id: repository copy not clean, stopping"; exit 2; fi
  # (no fuzzy fallback: `patch --fuzz` once moved a hunk into another branch and silently changed the mutant;
  # a change that no longer applies gets a hand-made patch.rebased.diff)
  # ... or is merged three-way on the blobs the patch names, which either merges cleanly or reports a conflict)
  if ! git -C $REPO apply $PWD/$P 2>/dev/null; then
    if ! git -C $REPO apply --3way $PWD/$P >/dev/null 2>&1 || [ -n "$(git -C $REPO diff --name-only --diff-filter=U)" ]; then
      echo "$id $prop PATCH-DOES-NOT-APPLY"; git -C $REPO checkout -q HEAD -- .; git -C $REPO clean -fdq; bad=1; continue
    fi
  fi
  out=$(./check $prop --tier quick 2>&1); rc=$?
  git -C $REPO checkout -q HEAD -- .; git -C $REPO clean -fdq
  cls=$(echo "$out" | grep -m1 "^  class=" | grep -o "class=[^ ]* key=[^ ]*")
  eff=$(echo "$out" | grep -m1 -oE "^$prop: [0-9]+ runs .* [0-9]+ violation" | sed -E 's/^[A-Z0-9]+: ([0-9]+) runs.* ([0-9]+) violation/after \1 runs, \2 reports/')
  if [ $rc -eq 1 ] && echo "$out" | grep -q "^VIOLATION property=$prop "; then echo "$id $prop caught $cls ($eff)"
  elif [ "$verdict" = "missed" ] && [ $rc -eq 0 ]; then echo "$id $prop not caught (recorded as a miss: outside what the simulation runs, see meta.json)"
  else echo "$id $prop NOT-CAUGHT rc=$rc $(echo "$out" | grep -m1 HARNESS)"; bad=1; fi
  for f in replays/${prop}-*.json; do rm -f "$f"; done
done
exit $bad
