#!/bin/bash
# usage: try_seeded.sh <PROP> <mutant dir with patch.diff, demo_test.go> <package dir for the demo> [check args...]
# 1. confirms in the scratch worktree /tmp/mut/<PROP>: builds, existing tests pass with the patch, demo fails with / passes without
# 2. applies the patch to $R, runs ./check <PROP>, restores $R
set -u
PROP=$1; MD=$2; PKG=$3; shift 3
# EVAL_VERIF / EVAL_REPO: a snapshot of /verif and a clone of $R to evaluate against, so that evaluations can run
# while /verif and $R themselves are being worked on
V=${EVAL_VERIF:-/verif}; R=${EVAL_REPO:-/repo}
WT=${WT_OVERRIDE:-${MUTROOT:-/tmp/mut}/$PROP}
export GOFLAGS=-mod=mod GOPROXY=off GOSUMDB=off
cd $WT || exit 9
git checkout -q -- . ; git clean -qfd -e out
DEMO=$(ls $MD/*_test.go | head -1)
echo "== demo on unmodified tree"
cp $DEMO $WT/$PKG/zz_demo_test.go
( cd $WT/$PKG && go test -count=1 -run . . 2>&1 | tail -3 )
rm -f $WT/$PKG/zz_demo_test.go
echo "== apply patch, build, existing tests"
git apply $MD/patch.diff || { echo PATCH-DOES-NOT-APPLY; exit 8; }
go build ./... 2>&1 | tail -3
go test -vet=off -count=1 ./... 2>&1 | grep -v "no test files" | grep -v "^ok" | head -5
echo "== demo with patch"
cp $DEMO $WT/$PKG/zz_demo_test.go
( cd $WT/$PKG && go test -count=1 -run . . 2>&1 | tail -4 )
rm -f $WT/$PKG/zz_demo_test.go
git checkout -q -- . ; git clean -qfd -e out
echo "== my check against the patched $R"
cd $V
export VERIF_REPO=$R
trap "git -C $R checkout -q HEAD -- . 2>/dev/null" EXIT TERM INT
# $R may have moved on since the worktree was cut (a fix: commit): fall back to a three-way merge on the blobs the
# patch names (never to fuzzy context matching, which once moved a hunk into another branch)
git -C $R apply $MD/patch.diff 2>/dev/null || { git -C $R apply --3way $MD/patch.diff >/dev/null 2>&1 && [ -z "$(git -C $R diff --name-only --diff-filter=U)" ] && echo "(applied with a three-way merge)"; } || { echo PATCH-DOES-NOT-APPLY-TO-REPO; git -C $R checkout -q HEAD -- .; exit 7; }
timeout 1300 ./check $PROP "$@" 2>&1 | grep -E "VIOLATION|class=|KNOWN|ERROR|runs \(" | cut -c1-260 | head -8
echo "check exit: ${PIPESTATUS[0]}"
git -C $R checkout -q HEAD -- .
find $R -name "*.orig" -newer $V/tools/try_seeded.sh -delete 2>/dev/null
git -C $R status --short | head -3
