#!/bin/bash
# eval_seeded.sh <PROP> <worktree id> <m>  -> one-paragraph summary
prop=$1; wt=$2; m=$3
pk=$(cat ${MUTROOT:-/tmp/mut}/$wt/out/$m/pkgdir.txt | head -1 | tr -d ' \n')
out=$(WT_OVERRIDE=${MUTROOT:-/tmp/mut}/$wt $(dirname $0)/try_seeded.sh $prop ${MUTROOT:-/tmp/mut}/$wt/out/$m $pk 2>&1)
clean=$(echo "$out" | sed -n '/== demo on unmodified tree/,/== apply patch/p' | grep -E "^(ok|FAIL|---)" | head -2 | tr '\n' ' ')
build=$(echo "$out" | sed -n '/== apply patch/,/== demo with patch/p' | grep -vE "^==" | head -3 | tr '\n' ' ')
patched=$(echo "$out" | sed -n '/== demo with patch/,/== my check/p' | grep -E "^(ok|FAIL)" | head -2 | tr '\n' ' ')
chk=$(echo "$out" | sed -n '/== my check/,$p' | grep -E "runs \(|class=|check exit|DOES-NOT|three-way" | cut -c1-200 | head -4)
echo "##### $prop $wt/$m pkg=$pk"; echo "  demo clean: $clean"; echo "  build/tests with patch: ${build:-ok}"; echo "  demo patched: $patched"; echo "$chk" | sed 's/^/  /'
