#!/usr/bin/env python3
"""record_fix.py <PROP> <commit> <class> <key_re> <what-file/function> -- <line text> || <DESIGN defect cell> || <DESIGN fix cell>
Appends a `fixed` entry to known_findings.json and a row to DESIGN.md section 8.1."""
import json, sys
prop, commit, cls, key_re, what = sys.argv[1:6]
rest = " ".join(sys.argv[7:])
line, defect, fix = [x.strip() for x in rest.split("||")]
p = "/verif/known_findings.json"
d = json.load(open(p))
d["findings"].append({"property": prop, "status": "fixed", "commit": commit, "class": cls, "key_re": key_re,
                      "line": "fixed: property=%s %s %s" % (prop, commit, line), "what": what})
json.dump(d, open(p, "w"), indent=1)
p = "/verif/DESIGN.md"
s = open(p).read()
marker = "| C19 (incidental) | `ExecMgmtCmd`: after a failed send"
assert marker in s
s = s.replace(marker, "| %s | %s | %s (%s) |\n%s" % (prop, defect, fix, commit, marker))
open(p, "w").write(s)
print("recorded", prop, commit)
