#!/usr/bin/env python3
"""keep_seeded.py <seed-id> <PROP> <mutant dir> <demo package dir> <caught|missed> <class/key or note> -- <what it needs to manifest>"""
import json, os, shutil, sys
sid, prop, md, pkg, verdict, cls = sys.argv[1:7]
needs = " ".join(sys.argv[8:]) if len(sys.argv) > 8 else ""
dst = os.path.join("/verif/seeded", sid)
os.makedirs(dst, exist_ok=True)
for f in os.listdir(md):
    if f.endswith(".go") or f in ("patch.diff", "notes.md"):
        shutil.copyfile(os.path.join(md, f), os.path.join(dst, f if not f.endswith(".go") else f + ".txt"))
meta = {
    "id": sid, "property": prop, "patch": "patch.diff",
    "demonstration": [f + ".txt" for f in os.listdir(md) if f.endswith(".go")],
    "demo_package_dir": pkg,
    "needs_to_manifest": needs,
    "confirmed": "in a scratch worktree of /repo HEAD: go build ./... ok and go test -vet=off ./... passes with the patch; the demonstration (copied into the package as zz_demo_test.go) fails with the patch and passes without (tools/try_seeded.sh)",
    "check_run": "git -C /repo apply patch.diff; ./check %s --tier quick; git -C /repo checkout -- ." % prop,
    "check_verdict": verdict, "check_class": cls,
    "origin": "written by an independent sub-agent that saw only the property text and a scratch worktree",
}
json.dump(meta, open(os.path.join(dst, "meta.json"), "w"), indent=1)
print("kept", dst, verdict)
