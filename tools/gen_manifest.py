#!/usr/bin/env python3
"""Regenerates /verif/MANIFEST.json from plan.py (checks) and the static parts below."""
import json, os, subprocess, sys
VERIF = os.path.dirname(os.path.dirname(os.path.abspath(__file__)))
sys.path.insert(0, VERIF)
from plan import PLAN, NOT_APPLICABLE, ENGINES

hook_commits = subprocess.run(["git", "-C", "/repo", "log", "--format=%h %s"], capture_output=True, text=True).stdout.splitlines()
hooks = [l.split()[0] for l in hook_commits if l.split(" ", 1)[1].startswith("verif hooks:")]

checks = []
for pid in sorted(PLAN):
    p = PLAN[pid]
    engines = "+".join(x["engine"] for x in p["parts"])
    checks.append({
        "property_id": pid,
        "quick_cmd": "./check %s --tier quick" % pid,
        "thorough_cmd": "./check %s --tier thorough" % pid,
        "evidence_file": "evidence/%s.json" % pid,
        "replay_cmd_template": "./check replay {path}",
        "engine": engines,
        "level_claimed": {
            "category": "exploration",
            "text": p.get("level_text", "Seeded search over generated scenarios (operation + fault lists) executed against the real code in a deterministic simulation; oracles are a reference model and invariants evaluated after every quiescent step. It samples the quantified space, it does not enumerate it: a clean batch is evidence, not proof."),
            "design_ref": "DESIGN.md section 6." + pid,
        },
        "level_note": p.get("level_note", "Trusted: the harness's reference model and canonicalisation (DESIGN.md sections 3.4, 3.6, appendix A); Go runtime and testing/synctest fake clock; stubs listed in the evidence file's components.stub."),
        "technique": p.get("technique", "deterministic simulation with fault injection: seeded scenario search, reference-model oracle, ddmin shrinking, exact replay"),
    })

na = list(NOT_APPLICABLE)
all_ids = [json.loads(l)["id"] for l in open(os.path.join(VERIF, "properties.jsonl"))]
for pid in all_ids:
    if pid not in PLAN and pid not in [x["property_id"] for x in na]:
        na.append({"property_id": pid, "reason": "not claimed yet: its simulation engine is still under construction (DESIGN.md section 10); the technique does apply"})
na.sort(key=lambda x: x["property_id"])

m = {
    "version": 1,
    "setup_cmd": "./check build",
    "hooks": {
        "guard": "verif (Go build tag)",
        "enable": "go1.26.8 test -c -tags verif, run by ./check on every invocation against /repo's working tree",
        "baseline_off_cmd": "cd /repo && GOFLAGS=-mod=mod GOPROXY=off GOSUMDB=off go test -vet=off -count=1 ./...",
        "source_commits": hooks,
        "add_only": True,
    },
    "engines": ENGINES,
    "checks": checks,
    "not_applicable": na,
    "notes": "Driver: ./check <PROP> [--tier quick|thorough] [--seed N] (VERIF_SEED/VERIF_TIER honoured). ./check replay <file> replays a minimised scenario. ./check selftest-determinism proves replayability. Known findings: known_findings.json.",
}
json.dump(m, open(os.path.join(VERIF, "MANIFEST.json"), "w"), indent=1)
print("MANIFEST.json: %d checks, %d not applicable, hooks %s" % (len(checks), len(NOT_APPLICABLE), hooks))
