#!/bin/bash
# multiseed.sh [seeds...] : every quick check with several VERIF_SEED values (default 1 2 3 4 5); prints one line per
# (seed, property) that is not clean. A check that is sound must be quiet for every seed on the unchanged tree.
cd "$(dirname "$0")/.."
seeds=("$@"); [ ${#seeds[@]} -eq 0 ] && seeds=(1 2 3 4 5)
bad=0
for s in "${seeds[@]}"; do
  for p in $(python3 -c "from plan import PLAN; print(' '.join(sorted(PLAN)))"); do
    out=$(./check $p --seed $s 2>&1); rc=$?
    if [ $rc -ne 0 ]; then echo "seed $s $p rc=$rc: $(echo "$out" | grep -E "class=|HARNESS" | head -2 | cut -c1-300)"; bad=1; fi
  done
  echo "seed $s done"
done
for f in replays/*.json; do rm -f "$f"; done 2>/dev/null
exit $bad
