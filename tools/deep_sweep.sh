#!/bin/bash
# deep_sweep.sh <seed> <factor> [PROP ...]: every check in the thorough tier's configuration with <factor> x the quick
# tier's run counts and another seed, a few workers only (meant for `vp run`, in the background, while work goes on)
cd "$(dirname "$0")/.."
seed=$1; factor=$2; shift 2
props=("$@"); [ ${#props[@]} -eq 0 ] && props=($(python3 -c "from plan import PLAN; print(' '.join(sorted(PLAN)))"))
for p in "${props[@]}"; do
  runs=$(python3 -c "from plan import PLAN; print(max(x['quick'] for x in PLAN['$p']['parts'])*$factor)")
  out=$(./check $p --tier thorough --seed $seed --runs $runs 2>&1); rc=$?
  echo "$p seed=$seed runs=$runs rc=$rc $(echo "$out" | grep -E "^$p:|class=|HARNESS" | head -3 | cut -c1-400)"
done
