#!/bin/bash
# eval_wave.sh <wave> [PROP ...] : evaluates /tmp/mut/w<wave>-<PROP>/out/m1, m2 one after the other (never in
# parallel: each evaluation patches /repo) and appends one summary paragraph per change to /tmp/mut/eval-w<wave>.log
wave=$1; shift
props=("$@"); [ ${#props[@]} -eq 0 ] && props=(C01 C02 C04 C05 C06 C07 C08 C09 C10 C11 C15 C16 C17 C18 C19 C20)
for p in "${props[@]}"; do
  for m in m1 m2; do
    d=/tmp/mut/w$wave-$p/out/$m
    [ -f $d/patch.diff ] || continue
    grep -q "^##### $p w$wave-$p/$m " /tmp/mut/eval-w$wave.log 2>/dev/null && continue
    MUTROOT=/tmp/mut $(dirname $0)/eval_seeded.sh $p w$wave-$p $m >> /tmp/mut/eval-w$wave.log 2>&1
  done
done
